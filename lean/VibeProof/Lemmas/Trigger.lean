import VibeProof.Model.Trigger
/-
Lemmas about the firing loops of `Model/Trigger.lean` for configurations whose trigger bodies
consist of audit INSERTs only (`AuditOnly`): a firing loop never touches the rows of `T`, and
when it succeeds the audit log grows by exactly the entries of the triggers that pass the
granularity / UPDATE OF / WHEN gates, in loop order.
-/
namespace VibeProof.Trigger
open VibeProof

/-- every statement of every trigger body is `INSERT INTO A VALUES (tid, OLD.*, NEW.*)` -/
def AuditOnly (ts : List Trig) : Prop :=
  ∀ t ∈ ts, ∀ a ∈ t.body, ∃ uo un, a = Action.audit uo un

/-- what the statement runner of a trigger body does with an audit INSERT: it appends the entry,
or it fails and leaves the state as it is -/
def AuditSpec (nested : Nested) : Prop :=
  ∀ st e, nested st (.audit e) = ({ st with log := st.log ++ [e] }, .ok 1) ∨
    ∃ er, nested st (.audit e) = (st, .err er)

theorem exec_audit_zero (cfg : Cfg) (top : Bool) (st : St) (e : Entry) :
    exec cfg 0 top st (.audit e) =
      if cfg.bad e then (st, .err .constraint) else (st, .err .recursion) := by
  simp [exec, execWith, execAudit]

theorem exec_audit_succ (cfg : Cfg) (n : Nat) (top : Bool) (st : St) (e : Entry) :
    exec cfg (n + 1) top st (.audit e) =
      if cfg.bad e then (st, .err .constraint)
      else ({ st with log := st.log ++ [e] }, .ok 1) := by
  simp [exec, execWith, execAudit]

theorem auditSpec_exec (cfg : Cfg) (n : Nat) (top : Bool) : AuditSpec (exec cfg n top) := by
  intro st e
  cases n with
  | zero =>
    rw [exec_audit_zero]
    by_cases h : cfg.bad e <;> simp [h]
  | succ n =>
    rw [exec_audit_succ]
    by_cases h : cfg.bad e <;> simp [h]

/-- the entry an action writes -/
def auditEntry (tid : Nat) (old new : Option Row) : Action → Option Entry
  | .audit uo un =>
    some { tid := tid, old := if uo then old else none, new := if un then new else none }
  | .nested _ => none

def bodyEntries (t : Trig) (old new : Option Row) : List Entry :=
  t.body.filterMap (auditEntry t.tid old new)

/-- the WHEN gate is open: no WHEN clause, or it evaluates to TRUE -/
def whenPasses (t : Trig) (old new : Option Row) : Bool :=
  match t.when with
  | none => true
  | some w =>
    match evalWhen w old new with
    | .ok true => true
    | _ => false

/-- a row-level trigger that is not held back by `UPDATE OF` and whose WHEN gate is open -/
def rowFires (t : Trig) (old new : Option Row) : Bool :=
  t.gran == .row &&
    (match old, new with
      | some o, some n => shouldFireUpdateOf t o n
      | _, _ => true) &&
    whenPasses t old new

def rowEntries (ts : List Trig) (old new : Option Row) : List Entry :=
  ts.flatMap (fun t => if rowFires t old new then bodyEntries t old new else [])

def stmtEntries (ts : List Trig) : List Entry :=
  ts.flatMap (fun t =>
    if t.gran == .stmt && whenPasses t none none then bodyEntries t none none else [])

theorem toStmt_audit (tid : Nat) (old new : Option Row) (uo un : Bool) (s : Stmt)
    (h : (Action.audit uo un).toStmt tid old new = .ok s) :
    s = .audit { tid := tid, old := if uo then old else none, new := if un then new else none } := by
  simp only [Action.toStmt] at h
  by_cases c : ((uo && old.isNone) || (un && new.isNone)) = true
  · rw [if_pos c] at h; cases h
  · rw [if_neg c] at h; cases h; rfl

theorem runActions_rows (nested : Nested) (hn : AuditSpec nested) (tid : Nat) (old new : Option Row) :
    ∀ (as : List Action) (st : St), (∀ a ∈ as, ∃ uo un, a = Action.audit uo un) →
      (runActions nested tid old new as st).1.rows = st.rows := by
  intro as
  induction as with
  | nil => intro st _; rfl
  | cons a as ih =>
    intro st ha
    obtain ⟨uo, un, rfl⟩ := ha a (by simp)
    have ha' : ∀ a ∈ as, ∃ uo un, a = Action.audit uo un := fun a h => ha a (by simp [h])
    unfold runActions
    cases hs : (Action.audit uo un).toStmt tid old new with
    | error e => rfl
    | ok s =>
      have := toStmt_audit tid old new uo un s hs
      subst this
      simp only
      rcases hn st { tid := tid, old := if uo then old else none, new := if un then new else none } with h | ⟨er, h⟩
      · rw [h]; simp only; rw [ih _ ha']
      · rw [h]

theorem runActions_ok (nested : Nested) (hn : AuditSpec nested) (tid : Nat) (old new : Option Row) :
    ∀ (as : List Action) (st st' : St), (∀ a ∈ as, ∃ uo un, a = Action.audit uo un) →
      runActions nested tid old new as st = (st', .ok ()) →
      st'.log = st.log ++ as.filterMap (auditEntry tid old new) := by
  intro as
  induction as with
  | nil => intro st st' _ h; simp [runActions] at h; subst h; simp
  | cons a as ih =>
    intro st st' ha h
    obtain ⟨uo, un, rfl⟩ := ha a (by simp)
    have ha' : ∀ a ∈ as, ∃ uo un, a = Action.audit uo un := fun a h => ha a (by simp [h])
    unfold runActions at h
    cases hs : (Action.audit uo un).toStmt tid old new with
    | error e => rw [hs] at h; simp at h
    | ok s =>
      rw [hs] at h
      have := toStmt_audit tid old new uo un s hs
      subst this
      simp only at h
      rcases hn st { tid := tid, old := if uo then old else none, new := if un then new else none } with h1 | ⟨er, h1⟩
      · rw [h1] at h; simp only at h
        have := ih _ _ ha' h
        rw [this]; simp [auditEntry, List.append_assoc]
      · rw [h1] at h; simp at h

theorem execTrigger_rows (nested : Nested) (hn : AuditSpec nested) (t : Trig) (old new : Option Row)
    (st : St) (ht : ∀ a ∈ t.body, ∃ uo un, a = Action.audit uo un) :
    (execTrigger nested t old new st).1.rows = st.rows := by
  unfold execTrigger
  cases hw : t.when with
  | none => simp only; exact runActions_rows nested hn _ _ _ _ _ ht
  | some w =>
    simp only
    cases he : evalWhen w old new with
    | error e => rfl
    | ok b =>
      cases b with
      | false => rfl
      | true => exact runActions_rows nested hn _ _ _ _ _ ht

theorem execTrigger_ok (nested : Nested) (hn : AuditSpec nested) (t : Trig) (old new : Option Row)
    (st st' : St) (ht : ∀ a ∈ t.body, ∃ uo un, a = Action.audit uo un)
    (h : execTrigger nested t old new st = (st', .ok ())) :
    st'.log = st.log ++ (if whenPasses t old new then bodyEntries t old new else []) := by
  unfold execTrigger at h
  unfold whenPasses
  cases hw : t.when with
  | none =>
    rw [hw] at h; simp only at h
    simpa [bodyEntries] using runActions_ok nested hn _ _ _ _ _ _ ht h
  | some w =>
    rw [hw] at h; simp only at h
    cases he : evalWhen w old new with
    | error e => rw [he] at h; simp at h
    | ok b =>
      rw [he] at h
      cases b with
      | false => simp only [he]; simp at h; subst h; simp
      | true => simp only [he]; simpa [bodyEntries] using runActions_ok nested hn _ _ _ _ _ _ ht h

/-- granularity and `UPDATE OF` gate of the row loops -/
def rowGate (t : Trig) (old new : Option Row) : Bool :=
  t.gran == .row &&
    (match old, new with
      | some o, some n => shouldFireUpdateOf t o n
      | _, _ => true)

theorem rowFires_eq (t : Trig) (old new : Option Row) :
    rowFires t old new = (rowGate t old new && whenPasses t old new) := rfl

theorem fireRowLoop_cons (nested : Nested) (old new : Option Row) (t : Trig) (ts : List Trig) (st : St) :
    fireRowLoop nested old new (t :: ts) st =
      if rowGate t old new then
        match execTrigger nested t old new st with
        | (st', .error e) => (st', .error e)
        | (st', .ok ()) => fireRowLoop nested old new ts st'
      else fireRowLoop nested old new ts st := by
  by_cases hg : (t.gran == Gran.row) = true
  · cases old with
    | none => cases new <;> (simp [fireRowLoop, rowGate, hg]; try rfl)
    | some o =>
      cases new with
      | none => simp [fireRowLoop, rowGate, hg]; try rfl
      | some n =>
        by_cases hs : shouldFireUpdateOf t o n = true
        · simp [fireRowLoop, rowGate, hg, hs]; try rfl
        · have hs' : shouldFireUpdateOf t o n = false := by simpa using hs
          simp [fireRowLoop, rowGate, hg, hs']
  · have hg' : (t.gran == Gran.row) = false := by simpa using hg
    simp [fireRowLoop, rowGate, hg']

theorem fireRowLoop_rows (nested : Nested) (hn : AuditSpec nested) (old new : Option Row) :
    ∀ (ts : List Trig) (st : St), AuditOnly ts →
      (fireRowLoop nested old new ts st).1.rows = st.rows := by
  intro ts
  induction ts with
  | nil => intro st _; rfl
  | cons t ts ih =>
    intro st ha
    have ht := ha t (by simp)
    have ha' : AuditOnly ts := fun t h => ha t (by simp [h])
    rw [fireRowLoop_cons]
    by_cases hg : rowGate t old new = true
    · rw [if_pos hg]
      have hr := execTrigger_rows nested hn t old new st ht
      cases hx : execTrigger nested t old new st with
      | mk s1 r1 =>
        rw [hx] at hr
        cases r1 with
        | error e => exact hr
        | ok u => cases u; simp only; rw [ih _ ha']; exact hr
    · rw [if_neg hg]; exact ih _ ha'

theorem fireRowLoop_ok (nested : Nested) (hn : AuditSpec nested) (old new : Option Row) :
    ∀ (ts : List Trig) (st st' : St), AuditOnly ts →
      fireRowLoop nested old new ts st = (st', .ok ()) →
      st'.log = st.log ++ rowEntries ts old new := by
  intro ts
  induction ts with
  | nil => intro st st' _ h; simp [fireRowLoop] at h; subst h; simp [rowEntries]
  | cons t ts ih =>
    intro st st' ha h
    have ht := ha t (by simp)
    have ha' : AuditOnly ts := fun t h => ha t (by simp [h])
    rw [fireRowLoop_cons] at h
    have hcons : rowEntries (t :: ts) old new =
        (if rowFires t old new then bodyEntries t old new else []) ++ rowEntries ts old new := by
      simp [rowEntries]
    rw [hcons, rowFires_eq]
    by_cases hg : rowGate t old new = true
    · rw [if_pos hg] at h
      cases hx : execTrigger nested t old new st with
      | mk s1 r1 =>
        rw [hx] at h
        cases r1 with
        | error e => simp at h
        | ok u =>
          cases u
          simp only at h
          have h1 := execTrigger_ok nested hn t old new st s1 ht hx
          have h2 := ih _ _ ha' h
          rw [h2, h1, hg, List.append_assoc]; simp
    · rw [if_neg hg] at h
      have hg' : rowGate t old new = false := by simpa using hg
      rw [hg']
      simpa using ih _ _ ha' h

theorem fireStmtLoop_rows (nested : Nested) (hn : AuditSpec nested) :
    ∀ (ts : List Trig) (st : St), AuditOnly ts →
      (fireStmtLoop nested ts st).1.rows = st.rows := by
  intro ts
  induction ts with
  | nil => intro st _; rfl
  | cons t ts ih =>
    intro st ha
    have ht := ha t (by simp)
    have ha' : AuditOnly ts := fun t h => ha t (by simp [h])
    unfold fireStmtLoop
    split
    · have hr := execTrigger_rows nested hn t none none st ht
      cases hx : execTrigger nested t none none st with
      | mk s1 r1 =>
        rw [hx] at hr
        cases r1 with
        | error e => exact hr
        | ok u => cases u; simp only; rw [ih _ ha']; exact hr
    · exact ih _ ha'

theorem fireStmtLoop_ok (nested : Nested) (hn : AuditSpec nested) :
    ∀ (ts : List Trig) (st st' : St), AuditOnly ts →
      fireStmtLoop nested ts st = (st', .ok ()) →
      st'.log = st.log ++ stmtEntries ts := by
  intro ts
  induction ts with
  | nil => intro st st' _ h; simp [fireStmtLoop] at h; subst h; simp [stmtEntries]
  | cons t ts ih =>
    intro st st' ha h
    have ht := ha t (by simp)
    have ha' : AuditOnly ts := fun t h => ha t (by simp [h])
    unfold fireStmtLoop at h
    have hcons : stmtEntries (t :: ts) =
        (if t.gran == .stmt && whenPasses t none none then bodyEntries t none none else []) ++
          stmtEntries ts := by
      simp [stmtEntries]
    rw [hcons]
    by_cases hg : (t.gran == Gran.stmt) = true
    · simp only [hg, if_true] at h
      cases hx : execTrigger nested t none none st with
      | mk s1 r1 =>
        rw [hx] at h
        cases r1 with
        | error e => simp at h
        | ok u =>
          cases u
          simp only at h
          have h1 := execTrigger_ok nested hn t none none st s1 ht hx
          have h2 := ih _ _ ha' h
          rw [h2, h1, hg, List.append_assoc]; simp
    · have hg' : (t.gran == Gran.stmt) = false := by simpa using hg
      simp only [hg'] at h
      rw [hg']
      simpa using ih _ _ ha' h

theorem auditOnly_filter (ts : List Trig) (p : Trig → Bool) (h : AuditOnly ts) :
    AuditOnly (ts.filter p) :=
  fun t ht => h t (List.mem_filter.mp ht).1

theorem auditOnly_find (cfg : Cfg) (tbl : Nat) (tm : Timing) (ev : Event) (h : AuditOnly cfg.trigs) :
    AuditOnly (findTriggers cfg tbl tm ev) := by
  unfold findTriggers triggersFor
  exact auditOnly_filter _ _ (auditOnly_filter _ _ h)

end VibeProof.Trigger
