import VibeProof.Lemmas.BTree
/-
Rebalancing after a deletion (rebalance.rs): every borrow / merge keeps the parent well-formed
(up to its own child count) and does not change the in-order entries.
-/
namespace VibeProof.BTree
local notation "Key" => Int


/-! ## bound arithmetic -/

theorem ltB_of_lt_bnd (a b : Int) (hi : Option Int) (h1 : a < b) (h2 : bndOK (some b) hi) : ltB a hi := by
  cases hi <;> simp_all <;> omega

theorem bnd_of_lt_bnd (a b : Int) (hi : Option Int) (h1 : a < b) (h2 : bndOK (some b) hi) :
    bndOK (some a) hi := by
  cases hi <;> simp_all <;> omega

theorem ltB_of_le_ltB (a b : Int) (hi : Option Int) (h1 : a ≤ b) (h2 : ltB b hi) : ltB a hi := by
  cases hi <;> simp_all <;> omega

theorem leB_of_leB_le (lo : Option Int) (a b : Int) (h1 : leB lo a) (h2 : a ≤ b) : leB lo b := by
  cases lo <;> simp_all <;> omega

theorem bnd_of_leB_lt (lo : Option Int) (a b : Int) (h1 : leB lo a) (h2 : a < b) : bndOK lo (some b) := by
  cases lo <;> simp_all <;> omega

theorem bnd_of_bnd_lt (lo : Option Int) (a b : Int) (h1 : bndOK lo (some a)) (h2 : a < b) : bndOK lo (some b) := by
  cases lo <;> simp_all <;> omega

theorem bnd_some_of_ltB (a : Int) (hi : Option Int) (h : ltB a hi) : bndOK (some a) hi := by
  cases hi <;> simp_all

theorem ltB_of_bnd_some (a : Int) (hi : Option Int) (h : bndOK (some a) hi) : ltB a hi := by
  cases hi <;> simp_all

theorem leB_of_bnd_some (lo : Option Int) (a b : Int) (h1 : bndOK lo (some a)) (h2 : a ≤ b) : leB lo b := by
  cases lo <;> simp_all <;> omega

/-- well-formed except that the node itself may have fewer than two children (what a merge below
    leaves behind until the next level repairs it, or the root collapses) -/
def WFw (d : Nat) : Nat → Option Key → Option Key → Node → Prop
  | 0, lo, hi, n => WF d 0 lo hi n
  | h + 1, lo, hi, .internal c0 r => r.length + 1 < d ∧ WFKids (WF d h) lo hi c0 r
  | _ + 1, _, _, .leaf _ => False

theorem WF_toWFw (d h : Nat) (lo hi : Option Key) (n : Node) (hw : WF d h lo hi n) : WFw d h lo hi n := by
  cases h with
  | zero => exact hw
  | succ h =>
    cases n with
    | leaf es => exact hw.elim
    | internal c0 r => exact ⟨hw.2.1, hw.2.2⟩

theorem WFw_toWF (d h : Nat) (lo hi : Option Key) (n : Node) (hw : WFw d h lo hi n)
    (hs : h = 0 ∨ 2 ≤ n.size) : WF d h lo hi n := by
  cases h with
  | zero => exact hw
  | succ h =>
    cases n with
    | leaf es => exact hw.elim
    | internal c0 r =>
      have : 2 ≤ r.length + 1 := by
        rcases hs with h0 | h2
        · omega
        · simpa [Node.size] using h2
      exact ⟨by omega, hw.1, hw.2⟩

theorem closeNode_WFw (d h : Nat) (lo hi flo : Option Key) (L : List (Node × Key)) (c : Node)
    (R : List (Key × Node)) (hL : WFLeft (WF d h) lo L flo) (hc : WF d h flo (hiOf R hi) c)
    (hR : WFRight (WF d h) hi R) (hlen : L.length + R.length + 1 < d) :
    WFw d (h + 1) lo hi (closeNode L c R) := by
  refine ⟨by rw [close_length]; exact hlen, ?_⟩
  exact (WFKids_close _ _ _ _ _ _).mpr ⟨flo, hL, (WFKids_focus _ _ _ _ _).mpr ⟨hc, hR⟩⟩

theorem closeNode_WF (d h : Nat) (lo hi flo : Option Key) (L : List (Node × Key)) (c : Node)
    (R : List (Key × Node)) (hL : WFLeft (WF d h) lo L flo) (hc : WF d h flo (hiOf R hi) c)
    (hR : WFRight (WF d h) hi R) (hlen : L.length + R.length + 1 < d) (h1 : 1 ≤ L.length + R.length) :
    WF d (h + 1) lo hi (closeNode L c R) := by
  have := closeNode_WFw d h lo hi flo L c R hL hc hR hlen
  exact ⟨by rw [close_length]; exact h1, this.1, this.2⟩

theorem closeNode_size (L : List (Node × Key)) (c : Node) (R : List (Key × Node)) :
    (closeNode L c R).size = L.length + R.length + 1 := by
  simp [closeNode, Node.size, close_length]

/-! ## leaves -/

theorem leafBorrowLeft_correct (d : Nat) (hd : 5 ≤ d) (lo hi flo : Option Key) (left : List (Node × Key))
    (es : List Entry) (right : List (Key × Node))
    (hL : WFLeft (WF d 0) lo left flo) (hF : WF d 0 flo (hiOf right hi) (.leaf es))
    (hR : WFRight (WF d 0) hi right) (hu : es.length < d / 2) (hsz : left.length + right.length + 1 < d) :
    (leafBorrowLeft d left es right = .ok none ∧
      (left = [] ∨ ∃ les lk left', left = (.leaf les, lk) :: left' ∧ les.length ≤ d / 2)) ∨
    (∃ n, leafBorrowLeft d left es right = .ok (some n) ∧ WF d 1 lo hi n ∧
      n.size = left.length + right.length + 1 ∧
      flat 1 n = flatLeft 0 left ++ (es ++ flatRight 0 right)) := by
  cases left with
  | nil => left; exact ⟨rfl, Or.inl rfl⟩
  | cons p left' =>
    obtain ⟨lc, lk⟩ := p
    obtain ⟨rfl, clo, hlc, hL'⟩ := hL
    cases lc with
    | internal a b => exact hlc.elim
    | leaf les =>
      by_cases hb : d / 2 < les.length
      · right
        have hne : les ≠ [] := by intro h; rw [h] at hb; simp at hb
        obtain ⟨dl, b, rfl⟩ : ∃ dl b, les = dl ++ [b] :=
          ⟨les.dropLast, les.getLast hne, (List.dropLast_concat_getLast hne).symm⟩
        have hb' : d / 2 < dl.length + 1 := by simpa using hb
        have heq : leafBorrowLeft d ((.leaf (dl ++ [b]), lk) :: left') es right =
            .ok (some (closeNode ((.leaf dl, b.1) :: left') (.leaf (b :: es)) right)) := by
          simp [leafBorrowLeft, hb']
        obtain ⟨ls, lb, ll, lbd⟩ := hlc
        obtain ⟨fs, fb, fl, fbd⟩ := hF
        rw [List.pairwise_append] at ls
        simp only [List.length_append, List.length_cons, List.length_nil] at ll
        have hbb := lb b (by simp)
        have hblk : b.1 < lk := by simpa using hbb.2.1
        refine ⟨_, heq, ?_, ?_, ?_⟩
        · refine closeNode_WF d 0 lo hi (some b.1) _ _ _ ⟨rfl, clo, ⟨ls.1, ?_, by omega, ?_⟩, hL'⟩
            ⟨?_, ?_, by simp; omega, ?_⟩ hR (by simpa using hsz) (by simp; omega)
          · intro x hx
            have := lb x (by simp [hx])
            exact ⟨this.1, by simpa using ls.2.2 x hx b (by simp), this.2.2⟩
          · -- clo < b : the lender keeps an entry
            cases dl with
            | nil => simp at hb'; omega
            | cons x dl' =>
              exact bnd_of_leB_lt clo x.1 b.1 (lb x (by simp)).1 (ls.2.2 x (by simp) b (by simp))
          · rw [List.pairwise_cons]
            refine ⟨?_, fs⟩
            intro x hx
            have : lk ≤ x.1 := by simpa using (fb x hx).1
            omega
          · intro x hx
            simp only [List.mem_cons] at hx
            rcases hx with rfl | hx
            · exact ⟨by simp, ltB_of_lt_bnd _ lk _ hblk fbd, hbb.2.2⟩
            · have := fb x hx
              have h1 : lk ≤ x.1 := by simpa using this.1
              exact ⟨by simp; omega, this.2.1, this.2.2⟩
          · exact bnd_of_lt_bnd _ lk _ hblk fbd
        · simp [closeNode_size]
        · simp [flat_closeNode, flatLeft, flat]
      · left
        exact ⟨by simp [leafBorrowLeft, hb], Or.inr ⟨les, lk, left', rfl, by omega⟩⟩

theorem leafBorrowRight_correct (d : Nat) (hd : 5 ≤ d) (lo hi flo : Option Key) (left : List (Node × Key))
    (es : List Entry) (right : List (Key × Node))
    (hL : WFLeft (WF d 0) lo left flo) (hF : WF d 0 flo (hiOf right hi) (.leaf es))
    (hR : WFRight (WF d 0) hi right) (hu : es.length < d / 2) (hsz : left.length + right.length + 1 < d) :
    (leafBorrowRight d left es right = .ok none ∧
      (right = [] ∨ ∃ rk res right', right = (rk, .leaf res) :: right' ∧ res.length ≤ d / 2)) ∨
    (∃ n, leafBorrowRight d left es right = .ok (some n) ∧ WF d 1 lo hi n ∧
      n.size = left.length + right.length + 1 ∧
      flat 1 n = flatLeft 0 left ++ (es ++ flatRight 0 right)) := by
  cases right with
  | nil => left; exact ⟨rfl, Or.inl rfl⟩
  | cons p right' =>
    obtain ⟨rk, rc⟩ := p
    obtain ⟨hrc, hR'⟩ := (WFKids_focus _ _ _ _ _).mp (show WFKids (WF d 0) (some rk) hi rc right' from hR)
    have hF' : WF d 0 flo (some rk) (.leaf es) := hF
    cases rc with
    | internal a b => exact hrc.elim
    | leaf res =>
      by_cases hb : d / 2 < res.length
      · right
        match res, hb, hrc with
        | [], hb, _ => simp at hb
        | [_], hb, _ => simp at hb; omega
        | b :: f :: rest, hb, hrc =>
          have heq : leafBorrowRight d left es ((rk, .leaf (b :: f :: rest)) :: right') =
              .ok (some (closeNode left (.leaf (es ++ [b])) ((f.1, .leaf (f :: rest)) :: right'))) := by
            simp only [leafBorrowRight, hb, if_true]
          obtain ⟨rs, rb, rl, rbd⟩ := hrc
          obtain ⟨fs, fb, fl, fbd⟩ := hF'
          rw [List.pairwise_cons] at rs
          have hbb := rb b (by simp)
          have hff := rb f (by simp)
          have hrkb : rk ≤ b.1 := by simpa using hbb.1
          have hbf : b.1 < f.1 := rs.1 f (by simp)
          refine ⟨_, heq, ?_, ?_, ?_⟩
          · refine closeNode_WF d 0 lo hi flo left _ _ hL ⟨?_, ?_, by simp; omega, ?_⟩ ?_
              (by simpa using hsz) (by simp; omega)
            · rw [List.pairwise_append]
              refine ⟨fs, by simp, ?_⟩
              intro x hx y hy
              simp at hy; subst hy
              have : x.1 < rk := by simpa using (fb x hx).2.1
              omega
            · intro x hx
              simp only [List.mem_append, List.mem_singleton] at hx
              rcases hx with hx | rfl
              · have h1 : x.1 < rk := by simpa using (fb x hx).2.1
                exact ⟨(fb x hx).1, by simp [hiOf]; omega, (fb x hx).2.2⟩
              · exact ⟨leB_of_bnd_some flo rk _ fbd hrkb, by simpa [hiOf] using hbf, hbb.2.2⟩
            · exact bnd_of_bnd_lt flo rk f.1 fbd (by omega)
            · refine (WFKids_focus _ _ _ _ _).mpr ⟨⟨rs.2, ?_, by simp at rl ⊢; omega, bnd_some_of_ltB _ _ hff.2.1⟩, hR'⟩
              intro x hx
              have hxx := rb x (List.mem_cons_of_mem _ hx)
              refine ⟨?_, hxx.2.1, hxx.2.2⟩
              simp only [List.mem_cons] at hx
              rcases hx with rfl | hx
              · simp
              · have := (List.pairwise_cons.mp rs.2).1 x hx
                simp; omega
          · simp [closeNode_size]
          · simp [flat_closeNode, flat]
      · left
        exact ⟨by simp [leafBorrowRight, hb], Or.inr ⟨rk, res, right', rfl, by omega⟩⟩

theorem leafMerge_correct (d : Nat) (hd : 5 ≤ d) (lo hi flo : Option Key) (left : List (Node × Key))
    (es : List Entry) (right : List (Key × Node))
    (hL : WFLeft (WF d 0) lo left flo) (hF : WF d 0 flo (hiOf right hi) (.leaf es))
    (hR : WFRight (WF d 0) hi right) (hu : es.length < d / 2) (hsz : left.length + right.length + 1 < d)
    (hl : left = [] ∨ ∃ les lk left', left = (.leaf les, lk) :: left' ∧ les.length ≤ d / 2)
    (hr : right = [] ∨ ∃ rk res right', right = (rk, .leaf res) :: right' ∧ res.length ≤ d / 2)
    (h1 : 1 ≤ left.length + right.length) :
    ∃ n, leafMerge left es right = .ok n ∧ WFw d 1 lo hi n ∧ n.size = left.length + right.length ∧
      flat 1 n = flatLeft 0 left ++ (es ++ flatRight 0 right) := by
  rcases hl with rfl | ⟨les, lk, left', rfl, hles⟩
  · -- no left sibling: the right sibling is merged into the leaf
    rcases hr with rfl | ⟨rk, res, right', rfl, hres⟩
    · simp at h1
    · have hlo : flo = lo := hL
      subst hlo
      obtain ⟨hrc, hR'⟩ := (WFKids_focus _ _ _ _ _).mp
        (show WFKids (WF d 0) (some rk) hi (.leaf res) right' from hR)
      have hF' : WF d 0 flo (some rk) (.leaf es) := hF
      obtain ⟨rs, rb, rl, rbd⟩ := hrc
      obtain ⟨fs, fb, fl, fbd⟩ := hF'
      refine ⟨_, rfl, ?_, ?_, ?_⟩
      · refine closeNode_WFw d 0 flo hi flo [] _ _ rfl ⟨?_, ?_, by simp; omega, bnd_trans _ rk _ fbd rbd⟩ hR'
          (by simp at hsz ⊢; omega)
        · rw [List.pairwise_append]
          refine ⟨fs, rs, ?_⟩
          intro x hx y hy
          have h1 : x.1 < rk := by simpa using (fb x hx).2.1
          have h2 : rk ≤ y.1 := by simpa using (rb y hy).1
          omega
        · intro x hx
          simp only [List.mem_append] at hx
          rcases hx with hx | hx
          · have h1 : x.1 < rk := by simpa using (fb x hx).2.1
            exact ⟨(fb x hx).1, ltB_of_lt_bnd _ rk _ h1 rbd, (fb x hx).2.2⟩
          · have h2 : rk ≤ x.1 := by simpa using (rb x hx).1
            exact ⟨leB_of_bnd_some flo rk _ fbd h2, (rb x hx).2.1, (rb x hx).2.2⟩
      · simp [closeNode_size]
      · simp [flat_closeNode, flat, flatLeft]
  · obtain ⟨rfl, clo, hlc, hL'⟩ := hL
    obtain ⟨ls, lb, ll, lbd⟩ := hlc
    obtain ⟨fs, fb, fl, fbd⟩ := hF
    refine ⟨_, rfl, ?_, ?_, ?_⟩
    · refine closeNode_WFw d 0 lo hi clo left' _ _ hL' ⟨?_, ?_, by simp; omega, bnd_trans _ lk _ lbd fbd⟩ hR
        (by simp at hsz ⊢; omega)
      · rw [List.pairwise_append]
        refine ⟨ls, fs, ?_⟩
        intro x hx y hy
        have h1 : x.1 < lk := by simpa using (lb x hx).2.1
        have h2 : lk ≤ y.1 := by simpa using (fb y hy).1
        omega
      · intro x hx
        simp only [List.mem_append] at hx
        rcases hx with hx | hx
        · have h1 : x.1 < lk := by simpa using (lb x hx).2.1
          exact ⟨(lb x hx).1, ltB_of_lt_bnd _ lk _ h1 fbd, (lb x hx).2.2⟩
        · have h2 : lk ≤ x.1 := by simpa using (fb x hx).1
          exact ⟨leB_of_bnd_some clo lk _ lbd h2, (fb x hx).2.1, (fb x hx).2.2⟩
    · simp [closeNode_size]; omega
    · simp [flat_closeNode, flat, flatLeft]

/-- `rebalance_leaf` -/
theorem rebalanceLeaf_correct (d : Nat) (hd : 5 ≤ d) (lo hi flo : Option Key) (left : List (Node × Key))
    (es : List Entry) (right : List (Key × Node))
    (hL : WFLeft (WF d 0) lo left flo) (hF : WF d 0 flo (hiOf right hi) (.leaf es))
    (hR : WFRight (WF d 0) hi right) (hu : es.length < d / 2) (hsz : left.length + right.length + 1 < d)
    (h1 : 1 ≤ left.length + right.length) :
    ∃ n m, rebalanceLeaf d left es right = .ok (n, m) ∧ WFw d 1 lo hi n ∧
      (m = false → WF d 1 lo hi n) ∧
      flat 1 n = flatLeft 0 left ++ (es ++ flatRight 0 right) := by
  unfold rebalanceLeaf
  rcases leafBorrowLeft_correct d hd lo hi flo left es right hL hF hR hu hsz with ⟨e1, hl⟩ | ⟨n, e1, w, _, f⟩
  · rw [e1]
    rcases leafBorrowRight_correct d hd lo hi flo left es right hL hF hR hu hsz with ⟨e2, hr⟩ | ⟨n, e2, w, _, f⟩
    · rw [e2]
      obtain ⟨n, e3, w, _, f⟩ := leafMerge_correct d hd lo hi flo left es right hL hF hR hu hsz hl hr h1
      rw [e3]
      exact ⟨n, true, rfl, w, by simp, f⟩
    · rw [e2]
      exact ⟨n, false, rfl, WF_toWFw _ _ _ _ _ w, fun _ => w, f⟩
  · rw [e1]
    exact ⟨n, false, rfl, WF_toWFw _ _ _ _ _ w, fun _ => w, f⟩

/-! ## internal nodes -/

theorem intBorrowLeft_correct (d : Nat) (hd : 5 ≤ d) (h : Nat) (lo hi flo : Option Key)
    (left : List (Node × Key)) (n0 : Node) (nr : List (Key × Node)) (right : List (Key × Node))
    (hL : WFLeft (WF d (h + 1)) lo left flo) (hF : WFw d (h + 1) flo (hiOf right hi) (.internal n0 nr))
    (hR : WFRight (WF d (h + 1)) hi right) (hu : nr.length + 1 < d / 2)
    (hsz : left.length + right.length + 1 < d) :
    (intBorrowLeft d left n0 nr right = .ok none ∧
      (left = [] ∨ ∃ l0 lr lk left', left = (.internal l0 lr, lk) :: left' ∧ lr.length + 1 ≤ d / 2)) ∨
    (∃ n, intBorrowLeft d left n0 nr right = .ok (some n) ∧ WF d (h + 2) lo hi n ∧
      flat (h + 2) n = flatLeft (h + 1) left ++ (flat (h + 1) (.internal n0 nr) ++ flatRight (h + 1) right)) := by
  cases left with
  | nil => left; exact ⟨rfl, Or.inl rfl⟩
  | cons p left' =>
    obtain ⟨lc, lk⟩ := p
    obtain ⟨rfl, clo, hlc, hL'⟩ := hL
    cases lc with
    | leaf a => exact hlc.elim
    | internal l0 lr =>
      by_cases hb : d / 2 < lr.length + 1
      · right
        have hne : lr ≠ [] := by intro h; rw [h] at hb; simp at hb; omega
        obtain ⟨dl, bp, rfl⟩ : ∃ dl bp, lr = dl ++ [bp] :=
          ⟨lr.dropLast, lr.getLast hne, (List.dropLast_concat_getLast hne).symm⟩
        obtain ⟨bk, bc⟩ := bp
        have heq : intBorrowLeft d ((.internal l0 (dl ++ [(bk, bc)]), lk) :: left') n0 nr right =
            .ok (some (closeNode ((.internal l0 dl, bk) :: left') (.internal bc ((lk, n0) :: nr)) right)) := by
          have hb' : d / 2 < dl.length + 1 + 1 := by simpa using hb
          simp [intBorrowLeft, hb']
        obtain ⟨l1, l2, lk'⟩ := hlc
        obtain ⟨k1, k2⟩ := (WFKids_split _ _ _ _ _ _ _ _).mp lk'
        simp only [List.length_append, List.length_cons, List.length_nil] at hb l1 l2
        refine ⟨_, heq, ?_, ?_⟩
        · refine closeNode_WF d (h + 1) lo hi (some bk) _ _ _
            ⟨rfl, clo, ⟨by omega, by omega, k1⟩, hL'⟩ ⟨by simp, by simp; omega, k2, hF.2⟩ hR
            (by simpa using hsz) (by simp; omega)
        · simp [flat_closeNode, flatLeft, flat_internal]
      · left
        exact ⟨by simp [intBorrowLeft, hb], Or.inr ⟨l0, lr, lk, left', rfl, by omega⟩⟩

theorem intBorrowRight_correct (d : Nat) (hd : 5 ≤ d) (h : Nat) (lo hi flo : Option Key)
    (left : List (Node × Key)) (n0 : Node) (nr : List (Key × Node)) (right : List (Key × Node))
    (hL : WFLeft (WF d (h + 1)) lo left flo) (hF : WFw d (h + 1) flo (hiOf right hi) (.internal n0 nr))
    (hR : WFRight (WF d (h + 1)) hi right) (hu : nr.length + 1 < d / 2)
    (hsz : left.length + right.length + 1 < d) :
    (intBorrowRight d left n0 nr right = .ok none ∧
      (right = [] ∨ ∃ rk r0 rr right', right = (rk, .internal r0 rr) :: right' ∧ rr.length + 1 ≤ d / 2)) ∨
    (∃ n, intBorrowRight d left n0 nr right = .ok (some n) ∧ WF d (h + 2) lo hi n ∧
      flat (h + 2) n = flatLeft (h + 1) left ++ (flat (h + 1) (.internal n0 nr) ++ flatRight (h + 1) right)) := by
  cases right with
  | nil => left; exact ⟨rfl, Or.inl rfl⟩
  | cons p right' =>
    obtain ⟨rk, rc⟩ := p
    obtain ⟨hrc, hR'⟩ := (WFKids_focus _ _ _ _ _).mp
      (show WFKids (WF d (h + 1)) (some rk) hi rc right' from hR)
    have hF' : WFw d (h + 1) flo (some rk) (.internal n0 nr) := hF
    cases rc with
    | leaf a => exact hrc.elim
    | internal r0 rr =>
      by_cases hb : d / 2 < rr.length + 1
      · right
        match rr, hb, hrc with
        | [], hb, _ => simp at hb; omega
        | (bk, r1) :: rr', hb, hrc =>
          have heq : intBorrowRight d left n0 nr ((rk, .internal r0 ((bk, r1) :: rr')) :: right') =
              .ok (some (closeNode left (.internal n0 (nr ++ [(rk, r0)])) ((bk, .internal r1 rr') :: right'))) := by
            simp only [intBorrowRight, hb, if_true]
          obtain ⟨r1', r2', rkids⟩ := hrc
          simp only [List.length_cons] at hb r1' r2'
          refine ⟨_, heq, ?_, ?_⟩
          · refine closeNode_WF d (h + 1) lo hi flo left _ _ hL
              ⟨by simp, by simp; omega, (WFKids_split _ _ _ _ _ _ _ _).mpr ⟨hF'.2, rkids.1⟩⟩ ?_
              (by simpa using hsz) (by simp; omega)
            exact (WFKids_focus _ _ _ _ _).mpr ⟨⟨by omega, by omega, rkids.2⟩, hR'⟩
          · simp [flat_closeNode, flat_internal]
      · left
        exact ⟨by simp [intBorrowRight, hb], Or.inr ⟨rk, r0, rr, right', rfl, by omega⟩⟩

theorem intMerge_correct (d : Nat) (hd : 5 ≤ d) (h : Nat) (lo hi flo : Option Key)
    (left : List (Node × Key)) (n0 : Node) (nr : List (Key × Node)) (right : List (Key × Node))
    (hL : WFLeft (WF d (h + 1)) lo left flo) (hF : WFw d (h + 1) flo (hiOf right hi) (.internal n0 nr))
    (hR : WFRight (WF d (h + 1)) hi right) (hu : nr.length + 1 < d / 2)
    (hsz : left.length + right.length + 1 < d)
    (hl : left = [] ∨ ∃ l0 lr lk left', left = (.internal l0 lr, lk) :: left' ∧ lr.length + 1 ≤ d / 2)
    (hr : right = [] ∨ ∃ rk r0 rr right', right = (rk, .internal r0 rr) :: right' ∧ rr.length + 1 ≤ d / 2)
    (h1 : 1 ≤ left.length + right.length) :
    ∃ n, intMerge left n0 nr right = .ok n ∧ WFw d (h + 2) lo hi n ∧
      flat (h + 2) n = flatLeft (h + 1) left ++ (flat (h + 1) (.internal n0 nr) ++ flatRight (h + 1) right) := by
  rcases hl with rfl | ⟨l0, lr, lk, left', rfl, hlr⟩
  · rcases hr with rfl | ⟨rk, r0, rr, right', rfl, hrr⟩
    · simp at h1
    · have hlo : flo = lo := hL
      subst hlo
      obtain ⟨hrc, hR'⟩ := (WFKids_focus _ _ _ _ _).mp
        (show WFKids (WF d (h + 1)) (some rk) hi (.internal r0 rr) right' from hR)
      have hF' : WFw d (h + 1) flo (some rk) (.internal n0 nr) := hF
      refine ⟨_, rfl, ?_, ?_⟩
      · refine closeNode_WFw d (h + 1) flo hi flo [] _ _ rfl
          ⟨by simp; omega, by simp; omega, (WFKids_split _ _ _ _ _ _ _ _).mpr ⟨hF'.2, hrc.2.2⟩⟩ hR'
          (by simp at hsz ⊢; omega)
      · simp [flat_closeNode, flat_internal, flatLeft]
  · obtain ⟨rfl, clo, hlc, hL'⟩ := hL
    refine ⟨_, rfl, ?_, ?_⟩
    · refine closeNode_WFw d (h + 1) lo hi clo left' _ _ hL'
        ⟨by simp; omega, by simp; omega, (WFKids_split _ _ _ _ _ _ _ _).mpr ⟨hlc.2.2, hF.2⟩⟩ hR
        (by simp at hsz ⊢; omega)
    · simp [flat_closeNode, flat_internal, flatLeft]

/-- `try_borrow_internal` / `merge_internal` -/
theorem rebalanceInternal_correct (d : Nat) (hd : 5 ≤ d) (h : Nat) (lo hi flo : Option Key)
    (left : List (Node × Key)) (n0 : Node) (nr : List (Key × Node)) (right : List (Key × Node))
    (hL : WFLeft (WF d (h + 1)) lo left flo) (hF : WFw d (h + 1) flo (hiOf right hi) (.internal n0 nr))
    (hR : WFRight (WF d (h + 1)) hi right) (hu : nr.length + 1 < d / 2)
    (hsz : left.length + right.length + 1 < d) (h1 : 1 ≤ left.length + right.length) :
    ∃ n, rebalanceInternal d left n0 nr right = .ok n ∧ WFw d (h + 2) lo hi n ∧
      flat (h + 2) n = flatLeft (h + 1) left ++ (flat (h + 1) (.internal n0 nr) ++ flatRight (h + 1) right) := by
  unfold rebalanceInternal
  rcases intBorrowLeft_correct d hd h lo hi flo left n0 nr right hL hF hR hu hsz with ⟨e1, hl⟩ | ⟨n, e1, w, f⟩
  · rw [e1]
    rcases intBorrowRight_correct d hd h lo hi flo left n0 nr right hL hF hR hu hsz with ⟨e2, hr⟩ | ⟨n, e2, w, f⟩
    · rw [e2]
      obtain ⟨n, e3, w, f⟩ := intMerge_correct d hd h lo hi flo left n0 nr right hL hF hR hu hsz hl hr h1
      exact ⟨n, e3, w, f⟩
    · rw [e2]
      exact ⟨n, rfl, WF_toWFw _ _ _ _ _ w, f⟩
  · rw [e1]
    exact ⟨n, rfl, WF_toWFw _ _ _ _ _ w, f⟩

end VibeProof.BTree
