import VibeProof.Model.Lexer
/-
C23 — the SQL parser is total (partial level: the lexer is modelled completely, of the parser only
the nesting skeleton with its depth budget; the 25k-line grammar is not modelled).
-/
namespace VibeProof.C23
open VibeProof VibeProof.Lexer

/-- **T1 (progress).** Every successful branch of `next_token` consumes at least one character:
    the unread rest is strictly shorter than the input it was called on.  (`tokenizeFrom` is
    defined by well-founded recursion on exactly this measure, so the lexer terminates on every
    input, for every Unicode classification.) -/
theorem C23_next_token_advances (k : Cls) (pos : Nat) (c : Char) (cs : List Char) (t : Tok)
    (r : RestLe cs.length) (_h : nextToken k pos c cs = .ok (t, r)) :
    r.1.length < (c :: cs).length := by
  have := r.2
  simp only [List.length_cons]
  omega

/-- trivia skipping never goes backwards -/
theorem C23_skip_trivia_suffix_length (k : Cls) (b : Bool) (cs : List Char) :
    (skipTrivia k b cs).1.length ≤ cs.length := (skipTrivia k b cs).2

/-- **T1 (outcome).** `tokenize` returns a lexer error or a token list whose last element is `Eof`
    placed at the end of the input. -/
theorem C23_tokenize_ends_in_eof (k : Cls) (total : Nat) (cs : List Char) (ts : List Spanned)
    (h : tokenizeFrom k total cs = .ok ts) : ts.getLast? = some ⟨.eof, total, total⟩ := by
  induction hn : cs.length using Nat.strongRecOn generalizing cs ts with
  | _ n ih =>
    unfold tokenizeFrom at h
    split at h
    · cases h; rfl
    · next c cs' hsk =>
      simp only at h
      split at h
      · cases h
      · next t r hnt =>
        split at h
        · cases h
        · next ts' hrec =>
          cases h
          have hlen : r.1.length < n := by
            have h1 := (skipTrivia k false cs).2
            rw [hsk] at h1
            simp only [List.length_cons] at h1
            have h2 := r.2
            omega
          have := ih r.1.length hlen r.1 ts' hrec rfl
          rw [List.getLast?_cons_of_ne_nil]
          · exact this
          · intro hnil; rw [hnil] at this; cases this

/-- spans of a token list: every token has a non-empty span, spans do not overlap, are in input
    order, and lie inside the input; `lo` is the first index not yet accounted for -/
def SpansFrom (total : Nat) : Nat → List Spanned → Prop
  | _, [] => True
  | lo, s :: rest =>
    lo ≤ s.start ∧ s.stop ≤ total ∧ (s.tok = .eof ∨ s.start < s.stop) ∧ SpansFrom total s.stop rest

/-- **T2 (span accounting).** No character is read twice and none outside the input: the tokens'
    character ranges are non-empty, pairwise disjoint, increasing and inside `[0, total)`. -/
theorem C23_spans_ordered (k : Cls) (total : Nat) (cs : List Char) (ts : List Spanned)
    (hle : cs.length ≤ total) (h : tokenizeFrom k total cs = .ok ts) :
    SpansFrom total (total - cs.length) ts := by
  induction hn : cs.length using Nat.strongRecOn generalizing cs ts with
  | _ n ih =>
    unfold tokenizeFrom at h
    split at h
    · cases h
      simp only [SpansFrom]
      refine ⟨by omega, Nat.le_refl _, ?_, trivial⟩
      simp
    · next c cs' hsk =>
      simp only at h
      split at h
      · cases h
      · next t r hnt =>
        split at h
        · cases h
        · next ts' hrec =>
          cases h
          have h1 := (skipTrivia k false cs).2
          rw [hsk] at h1
          simp only [List.length_cons] at h1
          have h2 := r.2
          have hlen : r.1.length < n := by omega
          have := ih r.1.length hlen r.1 ts' (by omega) hrec rfl
          simp only [SpansFrom]
          refine ⟨by omega, by omega, Or.inr (by omega), this⟩

/-! ### nesting skeleton -/

/-- `(`ⁿ atom `)`ⁿ -/
def parens (n : Nat) : List SkTok := List.replicate n .lp ++ [.atom] ++ List.replicate n .rp

theorem replicate_succ_append {α : Type} (n : Nat) (a : α) (l : List α) :
    List.replicate (n + 1) a ++ l = a :: (List.replicate n a ++ l) := by
  simp [List.replicate_succ]

theorem replicate_cons_comm {α : Type} (n : Nat) (a : α) (l : List α) :
    a :: (List.replicate n a ++ l) = List.replicate n a ++ a :: l := by
  induction n with
  | zero => rfl
  | succ m ih => simp only [List.replicate_succ, List.cons_append]; rw [ih]

/-- helper: with enough fuel and budget, `(`ⁿ atom `)`ⁿ followed by `rest` (not starting with a binary
    operator) parses and leaves `rest` -/
theorem skExpr_parens_ok (n : Nat) : ∀ (fuel budget : Nat) (rest : List SkTok),
    n < fuel → n < budget → (∀ r, rest ≠ .binop :: r) →
    skExpr fuel budget (List.replicate n .lp ++ [.atom] ++ List.replicate n .rp ++ rest) = .ok rest := by
  induction n with
  | zero =>
    intro fuel budget rest hf hb hr
    cases fuel with
    | zero => omega
    | succ f =>
      cases budget with
      | zero => omega
      | succ b =>
        simp only [List.replicate_zero, List.nil_append, List.append_nil, List.cons_append, skExpr]
        all_goals (split <;> first | rfl | exact absurd rfl (hr _))
  | succ n ih =>
    intro fuel budget rest hf hb hr
    cases fuel with
    | zero => omega
    | succ f =>
      cases budget with
      | zero => omega
      | succ b =>
        have hin := ih f b (.rp :: rest) (by omega) (by omega) (by intro r h; cases h)
        have e : List.replicate (n + 1) SkTok.lp ++ [SkTok.atom] ++ List.replicate (n + 1) SkTok.rp ++ rest
            = SkTok.lp :: (List.replicate n .lp ++ [.atom] ++ List.replicate n .rp ++ (.rp :: rest)) := by
          rw [List.replicate_succ (n := n) (a := SkTok.lp), List.replicate_succ' (n := n) (a := SkTok.rp)]
          simp only [List.cons_append, List.append_assoc, List.nil_append]
        rw [e]
        simp only [skExpr, hin]
        all_goals (split <;> first | rfl | exact absurd rfl (hr _))

/-- helper: beyond the budget the skeleton answers `tooDeep` -/
theorem skExpr_parens_deep (budget : Nat) : ∀ (n fuel : Nat) (rest : List SkTok),
    budget ≤ n → n < fuel →
    skExpr fuel budget (List.replicate n .lp ++ rest) = .error .tooDeep := by
  induction budget with
  | zero =>
    intro n fuel rest _ hf
    cases fuel with
    | zero => omega
    | succ f => simp [skExpr]
  | succ b ih =>
    intro n fuel rest hb hf
    cases fuel with
    | zero => omega
    | succ f =>
      cases n with
      | zero => omega
      | succ m =>
        have := ih m f rest (by omega) (by omega)
        simp only [List.replicate_succ, List.cons_append, skExpr, this]

/-- **T3 (depth budget).** For the family `(`ⁿ x `)`ⁿ and every budget `D`: with `n < D` the
    skeleton accepts, with `n ≥ D` it answers `tooDeep` — it never recurses deeper than `D`, for
    arbitrarily large `n` (fuel = token count + 1 is enough in both cases). -/
theorem C23_skeleton_depth_budget (D n : Nat) :
    skExpr (2 * n + 2) D (parens n) = (if n < D then .ok [] else .error .tooDeep) := by
  unfold parens
  by_cases h : n < D
  · rw [if_pos h]
    have := skExpr_parens_ok n (2 * n + 2) D [] (by omega) h (by intro r hr; cases hr)
    simpa using this
  · rw [if_neg h]
    have := skExpr_parens_deep D n (2 * n + 2) ([.atom] ++ List.replicate n .rp) (by omega) (by omega)
    simpa [List.append_assoc] using this

/-- the budget of the skeleton theorem instantiated with the parser's constant, re-read from
    `parser/mod.rs` on every run: 99 nested parentheses inside one expression level are accepted,
    100 000 are rejected without deeper recursion -/
theorem C23_skeleton_at_parser_limit :
    skExpr (2 * 100000 + 2) VibeProof.Generated.parserMaxNestingDepth (parens 100000) = .error .tooDeep ∧
    skExpr (2 * 50 + 2) VibeProof.Generated.parserMaxNestingDepth (parens 50) = .ok [] := by
  constructor
  · rw [C23_skeleton_depth_budget]
    simp [VibeProof.Generated.parserMaxNestingDepth]
  · rw [C23_skeleton_depth_budget]
    simp [VibeProof.Generated.parserMaxNestingDepth]

end VibeProof.C23
