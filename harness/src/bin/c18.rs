use vharness::*;
fn main() {
    let dir = std::path::PathBuf::from("/tmp/agent-c18");
    let mut db = Db::new();
    db.must("CREATE TABLE t (id INTEGER PRIMARY KEY, v INTEGER, s VARCHAR(20), d DOUBLE PRECISION, f REAL, b BOOLEAN, dt DATE, n NUMERIC(10,2), sm SMALLINT, bg BIGINT)");
    db.must("CREATE INDEX ix ON t (v)");
    db.must("INSERT INTO t VALUES (1, 10, 'a''b', 1.5, 2.5, TRUE, DATE '2024-01-02', 3.25, NULL, 9223372036854775807)");
    db.must("INSERT INTO t SELECT 2, 0-20, 'é漢', 0.0-0.0, 1.0, FALSE, NULL, NULL, NULL, 0-9223372036854775807-1");
    println!("tables {:?}", db.db.catalog.list_tables());
    println!("indexes {:?}", db.db.list_indexes());
    for i in db.db.list_indexes() { println!("{:?}", db.db.get_index(&i)); }
    println!("{:?}", db.scan("t"));
    let t = db.db.get_table("t").unwrap();
    println!("schema {:?}", t.schema.columns.iter().map(|c| (c.name.clone(), c.data_type.clone(), c.nullable)).collect::<Vec<_>>());
    for (fmt, ext) in [("bin","vbsql"),("z","vbsqlz"),("json","json")] {
        let p = dir.join(format!("x.{}", ext));
        let r = match fmt { "bin" => db.db.save_binary(&p), "z" => db.db.save_compressed(&p), _ => db.db.save_json(&p) };
        println!("{} save {:?}", fmt, r);
        let l = match fmt { "bin" => vibesql_storage::Database::load_binary(&p), "z" => vibesql_storage::Database::load_compressed(&p), _ => vibesql_storage::Database::load_json(&p) };
        match l {
            Ok(d2) => {
                let mut d2 = Db::from(d2);
                println!("  tables {:?} idx {:?}", d2.db.catalog.list_tables(), d2.db.list_indexes());
                for i in d2.db.list_indexes() { println!("  {:?}", d2.db.get_index(&i)); }
                println!("  scan {:?}", d2.scan("t"));
                println!("  q full {:?}", d2.query("SELECT id FROM t WHERE v + 0 = 10").brief());
                println!("  q idx {:?}", d2.query("SELECT id FROM t WHERE v = 10").brief());
                println!("  q pk {:?}", d2.query("SELECT v FROM t WHERE id = 2").brief());
                println!("  q ord {:?}", d2.query("SELECT id FROM t ORDER BY v").brief());
                println!("  ins dup pk {:?}", d2.exec("INSERT INTO t (id, v) VALUES (1, 5)").brief());
                let t = d2.db.get_table("t").unwrap();
                println!("  schema {:?} pk {:?}", t.schema.columns.iter().map(|c| (c.name.clone(), c.data_type.clone(), c.nullable)).collect::<Vec<_>>(), t.schema.primary_key);
            }
            Err(e) => println!("  load err {:?}", e),
        }
    }
    println!("{}", String::from_utf8_lossy(&std::fs::read(dir.join("x.vbsql")).unwrap().iter().flat_map(|b| format!("{:02x}", b).into_bytes()).collect::<Vec<u8>>()));
}
