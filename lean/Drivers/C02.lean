import VibeProof.Model.Codec
import VibeProof.Model.SecIndex
open VibeProof VibeProof.Proto VibeProof.Codec VibeProof.SecIndex

def decOptVal : Sx → Option (Option Value)
  | .atom "-" => some none
  | .atom s => (decValue s).map some
  | _ => none

def decFlag : Sx → Option Bool
  | .atom "1" => some true
  | .atom "0" => some false
  | _ => none

def encPos (ps : List Nat) : Sx := .list (.atom "pos" :: ps.map sxNat)

/-- `norm V` → `V`
    `scan (keys (v…)…) LO HI INCLO INCHI` → `(pos p…)`   (index built from the keys in row order)
    `lookup (keys (v…)…) (vals v…)` → `(pos p…)`
    `dump (keys (v…)…)` → `(idx ((v…) (p…))…)`
    `wherescan (keys (v)…) E` → `(pos p…)` (index on column 0, WHERE E)   `extract E` → `(range LO HI IL IH FULL)` -/
def handle : List Sx → Sx
  | [.atom "norm", .atom v] =>
    match decValue v with
    | some x => .atom (encValue (normValue x))
    | none => .atom "bad-request"
  | [.atom "scan", .list [.atom "keys", ks], lo, hi, il, ih] =>
    match decRows ks, decOptVal lo, decOptVal hi, decFlag il, decFlag ih with
    | some keys, some l, some h, some a, some b => encPos (rangeScan (build keys) l h a b)
    | _, _, _, _, _ => .atom "bad-request"
  | [.atom "lookup", .list [.atom "keys", ks], .list (.atom "vals" :: vs)] =>
    match decRows ks, vs.mapM decValueSx with
    | some keys, some vals => encPos (multiLookup (build keys) vals)
    | _, _ => .atom "bad-request"
  | [.atom "dump", .list [.atom "keys", ks]] =>
    match decRows ks with
    | some keys => .list (.atom "idx" :: (build keys).map (fun kp => .list [encRow kp.1, .list (kp.2.map sxNat)]))
    | none => .atom "bad-request"
  | [.atom "wherescan", .list [.atom "keys", ks], e] =>
    match decRows ks, decExpr e with
    | some keys, some ex =>
      match whereScan keys ex with
      | .ok ps => encPos ps
      | .error er => encErr er
    | _, _ => .atom "bad-request"
  | [.atom "extract", e] =>
    match decExpr e with
    | some ex =>
      match extractRange 0 ex with
      | some r => .list [.atom "range", .atom (match r.lo with | some v => encValue v | none => "-"),
          .atom (match r.hi with | some v => encValue v | none => "-"), sxBool r.incLo, sxBool r.incHi,
          sxBool (fullySatisfied 0 ex r)]
      | none => .atom "none"
    | none => .atom "bad-request"
  | _ => .atom "bad-request"

def main : IO Unit := runDriver handle
