import VibeProof.Model.SetOps
/- Helper lemmas about the counting algorithms of `Model/SetOps.lean`. -/
namespace VibeProof
variable {α : Type} [DecidableEq α]

theorem count_intersectAll (a : α) (l r : List α) :
    (intersectAll l r).count a = min (l.count a) (r.count a) := by
  induction l generalizing r with
  | nil => simp [intersectAll]
  | cons x l ih =>
    unfold intersectAll
    by_cases hx : x ∈ r
    · simp only [hx, if_true, List.count_cons, ih]
      by_cases hax : x = a
      · subst hax
        have : 0 < r.count x := List.count_pos_iff.mpr hx
        simp [List.count_erase_self]; omega
      · have h1 : (x == a) = false := by simpa using hax
        simp [h1, List.count_erase_of_ne (Ne.symm hax)]
    · simp only [hx, if_false, ih, List.count_cons]
      by_cases hax : x = a
      · subst hax
        have : r.count x = 0 := List.count_eq_zero.mpr hx
        simp [this]
      · have h1 : (x == a) = false := by simpa using hax
        simp [h1]

theorem count_exceptAll (a : α) (l r : List α) :
    (exceptAll l r).count a = l.count a - r.count a := by
  induction l generalizing r with
  | nil => simp [exceptAll]
  | cons x l ih =>
    unfold exceptAll
    by_cases hx : x ∈ r
    · simp only [hx, if_true, List.count_cons, ih]
      by_cases hax : x = a
      · subst hax
        have : 0 < r.count x := List.count_pos_iff.mpr hx
        simp [List.count_erase_self]; omega
      · have h1 : (x == a) = false := by simpa using hax
        simp [h1, List.count_erase_of_ne (Ne.symm hax)]
    · simp only [hx, if_false, ih, List.count_cons]
      by_cases hax : x = a
      · subst hax
        have : r.count x = 0 := List.count_eq_zero.mpr hx
        simp [this]
      · have h1 : (x == a) = false := by simpa using hax
        simp [h1]

theorem mem_seenLoop (keep : α → Bool) (a : α) (l seen : List α) :
    a ∈ seenLoop keep l seen ↔ a ∈ l ∧ keep a = true ∧ a ∉ seen := by
  induction l generalizing seen with
  | nil => simp [seenLoop]
  | cons x l ih =>
    unfold seenLoop
    by_cases h : (keep x && !(seen.contains x)) = true
    · rw [if_pos h]
      simp only [List.mem_cons, ih]
      simp only [Bool.and_eq_true, Bool.not_eq_true', List.contains_eq_mem, decide_eq_false_iff_not] at h
      constructor
      · rintro (rfl | ⟨h1, h2, h3⟩)
        · exact ⟨Or.inl rfl, h.1, h.2⟩
        · exact ⟨Or.inr h1, h2, fun hs => h3 (Or.inr hs)⟩
      · rintro ⟨rfl | h1, h2, h3⟩
        · exact Or.inl rfl
        · by_cases hax : a = x
          · exact Or.inl hax
          · exact Or.inr ⟨h1, h2, fun hs => by rcases hs with hs | hs; exact hax hs; exact h3 hs⟩
    · rw [if_neg h]
      simp only [ih, List.mem_cons]
      simp only [Bool.and_eq_true, Bool.not_eq_true', List.contains_eq_mem, decide_eq_false_iff_not, not_and, Classical.not_not] at h
      constructor
      · rintro ⟨h1, h2, h3⟩; exact ⟨Or.inr h1, h2, h3⟩
      · rintro ⟨rfl | h1, h2, h3⟩
        · exact absurd (h h2) h3
        · exact ⟨h1, h2, h3⟩

theorem nodup_seenLoop (keep : α → Bool) (l seen : List α) : (seenLoop keep l seen).Nodup := by
  induction l generalizing seen with
  | nil => simp [seenLoop]
  | cons x l ih =>
    unfold seenLoop
    split
    · refine List.nodup_cons.mpr ⟨?_, ih _⟩
      intro hm
      have := (mem_seenLoop keep x l (x :: seen)).mp hm
      exact this.2.2 (List.mem_cons_self)
    · exact ih _

theorem mem_dedup (a : α) (l : List α) : a ∈ dedup l ↔ a ∈ l := by
  induction l with
  | nil => simp [dedup]
  | cons x l ih =>
    simp only [dedup, List.mem_cons, List.mem_filter, ih]
    by_cases h : a = x <;> simp [h]

theorem nodup_dedup (l : List α) : (dedup l).Nodup := by
  induction l with
  | nil => simp [dedup]
  | cons x l ih =>
    simp only [dedup]
    refine List.nodup_cons.mpr ⟨by simp [List.mem_filter], ih.filter _⟩

theorem dedup_sublist (l : List α) : (dedup l).Sublist l := by
  induction l with
  | nil => simp [dedup]
  | cons x l ih =>
    simp only [dedup]
    exact List.Sublist.cons₂ x (List.Sublist.trans (List.filter_sublist) ih)

theorem sum_map_add' {γ : Type} (f g : γ → Nat) (ks : List γ) :
    (ks.map (fun k => f k + g k)).sum = (ks.map f).sum + (ks.map g).sum := by
  induction ks with
  | nil => simp
  | cons k ks ih => simp only [List.map_cons, List.sum_cons, ih]; omega

end VibeProof

namespace VibeProof
variable {κ : Type} [BEq κ] [LawfulBEq κ]

theorem sum_indicator (a : κ) (ks : List κ) :
    (ks.map (fun k => if a == k then 1 else 0)).sum = ks.count a := by
  induction ks with
  | nil => simp
  | cons k ks ih =>
    simp only [List.map_cons, List.sum_cons, ih, List.count_cons]
    by_cases h : a = k
    · subst h; simp; omega
    · have h1 : (a == k) = false := by simpa using h
      have h2 : (k == a) = false := by simpa using (Ne.symm h)
      simp [h1, h2]

/-- sum over a duplicate-free key list that covers all keys counts every element once
(for any lawful `BEq` on the keys) -/
theorem sum_filter_lengths {β : Type} (key : β → κ) (ks : List κ) (l : List β)
    (hnd : ks.Nodup) (hcov : ∀ p ∈ l, key p ∈ ks) :
    (ks.map (fun k => (l.filter (fun p => key p == k)).length)).sum = l.length := by
  induction l with
  | nil => induction ks with
    | nil => simp
    | cons k ks ihk => simpa using ihk (List.nodup_cons.mp hnd).2 (by simp)
  | cons p l ih =>
    have hcov' : ∀ q ∈ l, key q ∈ ks := fun q hq => hcov q (List.mem_cons_of_mem _ hq)
    have hp : key p ∈ ks := hcov p List.mem_cons_self
    have hlen : ∀ k, ((p :: l).filter (fun q => key q == k)).length
        = (l.filter (fun q => key q == k)).length + (if key p == k then 1 else 0) := by
      intro k
      cases hk : (key p == k) <;> simp [List.filter_cons, hk]
    have : (fun k => ((p :: l).filter (fun q => key q == k)).length)
        = (fun k => (l.filter (fun q => key q == k)).length + (if key p == k then 1 else 0)) := by
      funext k; exact hlen k
    rw [this, sum_map_add', ih hcov', sum_indicator]
    have : ks.count (key p) = 1 := by rw [hnd.count]; simp [hp]
    simp [this]

end VibeProof
