import VibeProof.Model.Bytes
/-
Frontend (client → server) message decoding of crates/vibesql-server/src/protocol/messages.rs,
transliterated: `FrontendMessage::decode`, `decode_startup`, `read_cstring` (C27).

Strings are carried as their UTF-8 bytes (a Rust `String` is exactly a valid UTF-8 byte
sequence; `String::from_utf8` = `utf8Valid`).  `HashMap<String,String>` is an association
list with `HashMap::insert` semantics.

The client-side encoder (`encodeFrontend`, `encodeStartup`) does not exist in the server; it is
written from the PostgreSQL frontend/backend protocol description and is what the round-trip
theorem and the harness's generator use.
-/
namespace VibeProof.Wire

inductive FrontendMsg where
  | startup (protocolVersion : Int) (params : List (Bytes × Bytes))
  | password (password : Bytes)
  | query (query : Bytes)
  | terminate
  | sslRequest
  deriving Repr, DecidableEq

/-- result of one decoder call on a buffer: what is returned and what is left in the buffer -/
inductive Outcome where
  | panic (k : PanicKind)
  | error (e : ProtoErr) (rest : Bytes)
  | needMore
  | msg (m : FrontendMsg) (rest : Bytes)
  deriving Repr, DecidableEq

/-- `read_cstring`: position of the first NUL, `split_to(pos)`, `advance(1)`, `from_utf8`. -/
def readCString (buf : Bytes) : Except Stop (Bytes × Bytes) :=
  match position0 buf with
  | none => .error (.err .invalidString)
  | some p =>
    match splitTo p buf with
    | .error s => .error s
    | .ok (bytes, buf1) =>
      match advance 1 buf1 with
      | .error s => .error s
      | .ok buf2 =>
        if utf8Valid bytes then .ok (bytes, buf2) else .error (.err .invalidString)

/-- an inner stop becomes the outcome of the call; `rest` is what the caller's buffer holds -/
def Stop.toOutcome (s : Stop) (rest : Bytes) : Outcome :=
  match s with
  | .panic k => .panic k
  | .err e => .error e rest

/-- the `match msg_type { … }` of `FrontendMessage::decode`, run on the body of the frame that was
    split off the buffer (`rest` = what stays in the connection buffer) -/
def decodeBody (ty : UInt8) (body rest : Bytes) : Outcome :=
  if ty = 0x51 then
    match readCString body with
    | .error s => s.toOutcome rest
    | .ok (q, _) => .msg (.query q) rest
  else if ty = 0x70 then
    match readCString body with
    | .error s => s.toOutcome rest
    | .ok (p, _) => .msg (.password p) rest
  else if ty = 0x58 then .msg .terminate rest
  else .error (.invalidMessageType ty) rest

/-- `FrontendMessage::decode` -/
def decode (buf : Bytes) : Outcome :=
  match buf with
  | ty :: b1 :: b2 :: b3 :: b4 :: _ =>
    let len := i32OfBytes b1 b2 b3 b4
    if len < 4 then .error .messageTooShort buf
    else
      let n := usizeOfI32 len
      match checkedAddUsize 1 n with
      | none => .panic .addOverflow
      | some need =>
        if buf.length < need then .needMore
        else
          match advance 1 buf with
          | .error s => s.toOutcome buf
          | .ok buf1 =>
            match splitTo n buf1 with
            | .error s => s.toOutcome buf1
            | .ok (frame, rest) =>
              match advance 4 frame with
              | .error s => s.toOutcome rest
              | .ok body => decodeBody ty body rest
  | _ => .needMore

/-- `HashMap::insert` on an association list: overwrite in place, else append -/
def insertParam : List (Bytes × Bytes) → Bytes → Bytes → List (Bytes × Bytes)
  | [], k, v => [(k, v)]
  | (k', v') :: rest, k, v =>
    if k' = k then (k, v) :: rest else (k', v') :: insertParam rest k v

/-- the `loop { key; if empty break; value; insert }` of `decode_startup`; `fuel` bounds the
    number of iterations (running out of it is the outcome `panic fuel`, i.e. non-termination) -/
def readParams : Nat → Bytes → List (Bytes × Bytes) → Except Stop (List (Bytes × Bytes))
  | 0, _, _ => .error (.panic .fuel)
  | fuel + 1, frame, acc =>
    match readCString frame with
    | .error s => .error s
    | .ok (k, f1) =>
      if k.isEmpty then .ok acc
      else
        match readCString f1 with
        | .error s => .error s
        | .ok (v, f2) => readParams fuel f2 (insertParam acc k v)

def sslRequestCode : Int := 80877103

/-- `decode_startup` after the packet was split off and its length field skipped -/
def startupBody (f1 rest : Bytes) : Outcome :=
  match getI32 f1 with
  | .error s => s.toOutcome rest
  | .ok (version, f2) =>
    if version = sslRequestCode then .msg .sslRequest rest
    else
      match readParams (f2.length + 1) f2 [] with
      | .error s => s.toOutcome rest
      | .ok params => .msg (.startup version params) rest

/-- `FrontendMessage::decode_startup` -/
def decodeStartup (buf : Bytes) : Outcome :=
  match buf with
  | b0 :: b1 :: b2 :: b3 :: _ =>
    let len := i32OfBytes b0 b1 b2 b3
    if len < 8 then .error .messageTooShort buf
    else
      let n := usizeOfI32 len
      if buf.length < n then .needMore
      else
        match splitTo n buf with
        | .error s => s.toOutcome buf
        | .ok (frame, rest) =>
          match advance 4 frame with
          | .error s => s.toOutcome rest
          | .ok f1 => startupBody f1 rest
  | _ => .needMore

/-! the declared length of the frame at the head of a buffer (what the property speaks about) -/

def declaredLen : Bytes → Option Int
  | _ :: b1 :: b2 :: b3 :: b4 :: _ => some (i32OfBytes b1 b2 b3 b4)
  | _ => none

def declaredLenStartup : Bytes → Option Int
  | b0 :: b1 :: b2 :: b3 :: _ => some (i32OfBytes b0 b1 b2 b3)
  | _ => none

/-! client-side encoders (from the protocol description) -/

def cstr (s : Bytes) : Bytes := s ++ [0]

def encodeFrontend : FrontendMsg → Bytes
  | .query q => 0x51 :: (be32 (4 + (q.length + 1)) ++ cstr q)
  | .password p => 0x70 :: (be32 (4 + (p.length + 1)) ++ cstr p)
  | .terminate => 0x58 :: be32 4
  | _ => []

def encodeParams : List (Bytes × Bytes) → Bytes
  | [] => []
  | (k, v) :: rest => cstr k ++ (cstr v ++ encodeParams rest)

def encodeStartup : FrontendMsg → Bytes
  | .startup v params =>
    let body := encodeParams params ++ [0]
    be32 (8 + body.length) ++ (be32i v ++ body)
  | .sslRequest => be32 8 ++ be32i sslRequestCode
  | _ => []

/-- a string a client can put on the wire and get back: valid UTF-8 without NUL -/
def wfStr (s : Bytes) : Bool := nulFree s && utf8Valid s

def keysOf (ps : List (Bytes × Bytes)) : List Bytes := ps.map (·.1)

/-- well-formed regular message: strings NUL-free UTF-8, frame length fits `i32` -/
def wfMsg : FrontendMsg → Prop
  | .query q => wfStr q = true ∧ 4 + (q.length + 1) < 2147483648
  | .password p => wfStr p = true ∧ 4 + (p.length + 1) < 2147483648
  | .terminate => True
  | _ => False

def wfParams : List (Bytes × Bytes) → Prop
  | [] => True
  | (k, v) :: rest => wfStr k = true ∧ k ≠ [] ∧ wfStr v = true ∧ k ∉ keysOf rest ∧ wfParams rest

/-- well-formed startup packet: version is an `i32` other than the SSL request code, keys are
    non-empty and pairwise distinct, strings NUL-free UTF-8, packet length fits `i32` -/
def wfStartup : FrontendMsg → Prop
  | .startup v params =>
    -2147483648 ≤ v ∧ v < 2147483648 ∧ v ≠ sslRequestCode ∧ wfParams params ∧
      8 + ((encodeParams params).length + 1) < 2147483648
  | .sslRequest => True
  | _ => False

end VibeProof.Wire
