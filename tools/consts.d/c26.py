# C26: the tables of privilege_checker.rs / grant.rs / revoke.rs, re-read on every run.
import re


def _lean_strs(xs):
    return "[" + ", ".join('"%s"' % x for x in xs) + "]"


def extract(read):
    pc = read("crates/vibesql-executor/src/privilege_checker.rs")
    out = []
    # roles that bypass every check: `if role == "ADMIN" || role == "DBA"`
    m = re.search(r"Admin roles bypass all checks\s*\n\s*if\s+(.*?)\{", pc, re.S)
    admins = re.findall(r'role\s*==\s*"(\w+)"', m.group(1)) if m else None
    if admins:
        out.append("/-- privilege_checker.rs: role names that bypass all checks -/\ndef privAdminRoles : List String := %s\n" % _lean_strs(admins))
    else:
        out.append("-- privAdminRoles: NOT FOUND in source (dependent theorems will not build)\n")
    # check_xxx -> PrivilegeType used
    pairs = []
    for fn, body in re.findall(r"pub fn (check_\w+)\s*\(.*?\{(.*?)\n    \}", pc, re.S):
        mm = re.search(r"PrivilegeType::(\w+)", body)
        if mm:
            pairs.append((fn, mm.group(1)))
    if pairs:
        out.append("/-- privilege_checker.rs: which PrivilegeType each check function asks for -/\ndef privCheckFns : List (String × String) := [%s]\n"
                   % ", ".join('("%s", "%s")' % p for p in pairs))
    else:
        out.append("-- privCheckFns: NOT FOUND in source (dependent theorems will not build)\n")
    # security-disabled bypass present?
    sec = 1 if re.search(r"if\s+!db\.is_security_enabled\(\)\s*\{\s*return Ok\(\(\)\);", pc) else 0
    out.append("/-- privilege_checker.rs: `if !db.is_security_enabled() { return Ok(()) }` present (1) -/\ndef privSecurityBypass : Nat := %d\n" % sec)
    # ALL PRIVILEGES expansion for tables in grant.rs / revoke.rs
    for name, rel in (("privAllTableGrant", "crates/vibesql-executor/src/grant.rs"), ("privAllTableRevoke", "crates/vibesql-executor/src/revoke.rs")):
        src = read(rel)
        m = re.search(r"ObjectType::Table\s*=>\s*vec!\[(.*?)\]", src, re.S)
        if m:
            out.append("/-- %s: expansion of ALL PRIVILEGES on a table -/\ndef %s : List String := %s\n"
                       % (rel.split("/")[-1], name, _lean_strs(re.findall(r"PrivilegeType::(\w+)", m.group(1)))))
        else:
            out.append("-- %s: NOT FOUND in source (dependent theorems will not build)\n" % name)
    return "\n".join(out)
