"""C21: declaration order of `enum SqlValue` (= mem::discriminant values fed to the hasher)."""
import re


def extract(read):
    src = read("crates/vibesql-types/src/sql_value/mod.rs")
    m = re.search(r"pub\s+enum\s+SqlValue\s*\{(.*?)\n\}", src, re.S)
    if not m:
        return "-- sqlValueVariants: NOT FOUND in source (dependent theorems will not build)\n"
    body = re.sub(r"//[^\n]*", "", m.group(1))
    names = re.findall(r"^\s*([A-Z]\w*)\s*(?:\([^)]*\))?\s*,", body, re.M)
    return ("/-- sql_value/mod.rs: variants of `enum SqlValue` in declaration order -/\n"
            "def sqlValueVariants : List String := [%s]\n" % ", ".join('"%s"' % n for n in names))
