# C03: constants of the columnar aggregate path, re-read from the source on every run.
#  - can_use_simd_for_column looks at the first N cells (`if idx >= N { break }`)
#  - the gate lines of should_use_columnar that reject HAVING / ORDER BY / LIMIT / OFFSET
import re


def extract(read):
    simd = read("crates/vibesql-executor/src/select/columnar/simd_aggregate.rs")
    m = re.search(r"fn\s+can_use_simd_for_column.*?if\s+idx\s*>=\s*(\d+)", simd, re.S)
    gate = read("crates/vibesql-executor/src/select/executor/columnar_execution.rs")
    g = re.search(r"fn\s+should_use_columnar(.*?)\n    \}\n", gate, re.S)
    body = g.group(1) if g else ""
    rejected = [name for name in ["having", "order_by", "limit", "offset", "group_by", "distinct"]
                if re.search(r"stmt\.%s(\.is_some\(\))?\s*(\|\||\{|\n)" % name, body)]
    out = []
    if m:
        out.append("/-- simd_aggregate.rs `can_use_simd_for_column`: number of leading cells inspected -/")
        out.append("def c03SimdProbe : Nat := %s" % m.group(1))
    else:
        out.append("-- c03SimdProbe: NOT FOUND in source (dependent theorem will not build)")
    bs = sorted(set(re.findall(r"const\s+BATCH_SIZE\s*:\s*usize\s*=\s*(\d+)", simd)))
    out.append("/-- simd_aggregate.rs: the BATCH_SIZE constants of the streaming kernels (all of them) -/")
    out.append("def c03SimdBatchSizes : List Nat := [%s]" % ", ".join(bs))
    # initial values of the running minimum / maximum of every simd_* kernel:
    # (file:function, element type, "min"|"max", initialiser text as written)
    inits = []
    for rel in ["crates/vibesql-executor/src/simd/aggregation.rs", "crates/vibesql-executor/src/select/columnar/simd_aggregate.rs"]:
        src = read(rel)
        for m2 in re.finditer(r"pub fn (simd_\w+_(f64|i64))\b(.*?)(?=\npub fn |\n#\[cfg\(|\Z)", src, re.S):
            fn, ty, body = m2.group(1), m2.group(2), m2.group(3)
            for kind, init in re.findall(r"let mut (min|max)\s*(?::\s*\w+\s*)?=\s*([^;]+);", body):
                inits.append((rel.split("/")[-1] + ":" + fn, ty, kind, init.strip()))
    out.append("/-- initial value of the running min / max of every simd_* kernel, as written in the source -/")
    out.append("def c03KernelInits : List (String × String × String × String) := [%s]"
               % ", ".join('("%s", "%s", "%s", "%s")' % t for t in inits))
    out.append("/-- columnar_execution.rs `should_use_columnar`: statement parts whose presence makes the gate return false -/")
    out.append("def c03GateRejects : List String := [%s]" % ", ".join('"%s"' % r for r in rejected))
    return "\n".join(out) + "\n"
