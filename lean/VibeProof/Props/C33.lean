import VibeProof.Model.Ddl
/-
C33 — schema changes keep catalog, storage and indexes consistent.

`DdlInv`: catalog and storage hold the same tables (same names, same order); every
user-defined index names an existing table; every stored row is as wide as the stored table's
own schema.  Preserved by EVERY step norm (CREATE/DROP TABLE, CREATE/DROP INDEX, INSERT,
DELETE/TRUNCATE, ALTER TABLE ADD/DROP COLUMN), hence by every history, names reused or not.
Corollaries: a dropped table leaves no index and no storage entry; a re-created table is empty
and index-free; ADD COLUMN keeps every existing value.

"Every listed table is usable with its declared columns": catalog and storage agree on the
columns of every table (`C33_agree`, every history, ALTER included — true since fix ecda3d9a;
before it ALTER TABLE ADD/DROP COLUMN rewrote only the stored table's schema copy) and a row
of the declared width is accepted (`C33_insert_of_declared_width_accepted`).
-/
namespace VibeProof.C33
open VibeProof VibeProof.Ddl

variable (norm : String → String)

def Names (s : DState) : Prop := s.catalog.map (fun e => e.1) = s.stored.map (fun e => e.1)

def IdxOk (s : DState) : Prop := ∀ ix ∈ s.reg, ix.table ∈ s.catalog.map (fun e => e.1)

def Widths (s : DState) : Prop := ∀ e ∈ s.stored, ∀ r ∈ e.2.rows, r.length = e.2.cols.length

def DdlInv (s : DState) : Prop := Names s ∧ IdxOk s ∧ Widths s

theorem catCols_isSome (s : DState) (n : String) :
    (catCols s n).isSome = true ↔ n ∈ s.catalog.map (fun e => e.1) := by
  unfold catCols
  rw [Option.isSome_map, List.find?_isSome]
  simp only [List.mem_map, beq_iff_eq]

theorem updStored_names (s : DState) (n : String) (f : STable → STable) :
    (updStored s n f).stored.map (fun e => e.1) = s.stored.map (fun e => e.1) := by
  simp only [updStored, List.map_map]
  apply List.map_congr_left
  intro e _
  simp only [Function.comp]
  split <;> rfl

theorem updStored_inv (s : DState) (n : String) (f : STable → STable) (h : DdlInv s)
    (hf : ∀ t, (∀ r ∈ t.rows, r.length = t.cols.length) → ∀ r ∈ (f t).rows, r.length = (f t).cols.length) :
    DdlInv (updStored s n f) := by
  obtain ⟨h1, h2, h3⟩ := h
  refine ⟨?_, h2, ?_⟩
  · unfold Names; rw [updStored_names]; exact h1
  · intro e he
    simp only [updStored, List.mem_map] at he
    obtain ⟨e0, he0, rfl⟩ := he
    split
    · exact hf _ (h3 e0 he0)
    · exact h3 e0 he0

theorem updCatalog_names (s : DState) (n : String) (g : List String → List String) :
    (updCatalog s n g).catalog.map (fun e => e.1) = s.catalog.map (fun e => e.1) := by
  simp only [updCatalog, List.map_map]
  apply List.map_congr_left
  intro e _
  simp only [Function.comp]
  split <;> rfl

theorem updCatalog_inv (s : DState) (n : String) (g : List String → List String) (h : DdlInv s) :
    DdlInv (updCatalog s n g) := by
  obtain ⟨h1, h2, h3⟩ := h
  refine ⟨?_, ?_, h3⟩
  · unfold Names; rw [updCatalog_names]; exact h1
  · intro ix hix; rw [updCatalog_names]; exact h2 ix hix

/-- every step norm keeps catalog, storage and index registry consistent -/
theorem C33_step_preserves (s : DState) (op : DOp) (h : DdlInv s) : DdlInv (step norm s op).1 := by
  cases op with
  | createTable n cols =>
    simp only [step]
    split
    · exact h
    · obtain ⟨h1, h2, h3⟩ := h
      refine ⟨?_, ?_, ?_⟩
      · simp only [Names, List.map_append] at h1 ⊢; rw [h1]; rfl
      · intro ix hix
        simp only [List.map_append, List.mem_append]
        exact Or.inl (h2 ix hix)
      · intro e he
        simp only [List.mem_append, List.mem_singleton] at he
        rcases he with he | rfl
        · exact h3 e he
        · intro r hr; cases hr
  | dropTable n =>
    simp only [step]
    split
    · obtain ⟨h1, h2, h3⟩ := h
      refine ⟨?_, ?_, ?_⟩
      · simp only [Names] at h1 ⊢
        have e1 : (s.catalog.filter (fun e => decide (e.1 ≠ n))).map (fun e => e.1)
            = (s.catalog.map (fun e => e.1)).filter (fun x => decide (x ≠ n)) := by
          rw [List.filter_map]; rfl
        have e2 : (s.stored.filter (fun e => decide (e.1 ≠ n))).map (fun e => e.1)
            = (s.stored.map (fun e => e.1)).filter (fun x => decide (x ≠ n)) := by
          rw [List.filter_map]; rfl
        rw [e1, e2, h1]
      · intro ix hix
        simp only [List.mem_filter, decide_eq_true_eq] at hix
        have := h2 ix hix.1
        simp only [List.mem_map] at this ⊢
        obtain ⟨e, he, hen⟩ := this
        exact ⟨e, List.mem_filter.mpr ⟨he, by simp [hen, hix.2]⟩, hen⟩
      · intro e he
        exact h3 e (List.mem_filter.mp he).1
    · exact h
  | createIndex i n cols =>
    simp only [step]
    cases hc : catCols s n with
    | none => exact h
    | some tc =>
      simp only
      split
      · split
        · exact h
        · obtain ⟨h1, h2, h3⟩ := h
          refine ⟨h1, ?_, h3⟩
          intro ix hix
          simp only [List.mem_append, List.mem_singleton] at hix
          rcases hix with hix | rfl
          · exact h2 ix hix
          · exact (catCols_isSome s n).mp (by rw [hc]; rfl)
      · exact h
  | dropIndex i =>
    obtain ⟨h1, h2, h3⟩ := h
    simp only [step]
    split
    · exact ⟨h1, fun ix hix => h2 ix (List.mem_filter.mp hix).1, h3⟩
    · split
      · exact ⟨h1, fun ix hix => h2 ix (List.mem_filter.mp hix).1, h3⟩
      · exact ⟨h1, h2, h3⟩
  | changeColumn n old new =>
    simp only [step]
    split
    · exact h
    · split
      · split
        · exact h
        · have h1 : DdlInv (updCatalog (updStored s n (renameCol old new)) n (colsRename old new)) := by
            apply updCatalog_inv
            apply updStored_inv _ _ _ h
            intro t ht r' hr'
            simp only [renameCol, colsRename, List.length_map] at hr' ⊢
            exact ht r' hr'
          obtain ⟨a, b, c3⟩ := h1
          refine ⟨a, ?_, c3⟩
          intro ix hix
          simp only [List.mem_map] at hix
          obtain ⟨d, hd, rfl⟩ := hix
          have := b d hd
          split <;> exact this
      · exact h
  | modifyColumn n c =>
    simp only [step]
    split
    · exact h
    · split <;> exact h
  | insert n r =>
    simp only [step]
    split
    · split
      · exact h
      · split
        · exact h
        · apply updStored_inv _ _ _ h
          intro t ht r' hr'
          unfold pushRow at hr' ⊢
          by_cases hw : r.length = t.cols.length
          · simp only [hw, ↓reduceIte, List.mem_append, List.mem_singleton] at hr' ⊢
            rcases hr' with hr' | rfl
            · exact ht r' hr'
            · exact hw
          · simp only [hw, ↓reduceIte] at hr' ⊢
            exact ht r' hr'
    · exact h
  | clear n =>
    simp only [step]
    split
    · apply updStored_inv _ _ _ h
      intro t _ r' hr'; cases hr'
    · exact h
  | addColumn n c =>
    simp only [step]
    split
    · exact h
    · split
      · exact h
      · simp only
        apply updCatalog_inv
        apply updStored_inv _ _ _ h
        intro t ht r' hr'
        simp only [addCol, colsAdd, List.mem_map] at hr' ⊢
        obtain ⟨r0, hr0, rfl⟩ := hr'
        simp [ht r0 hr0]
  | dropColumn n c =>
    simp only [step]
    split
    · exact h
    · split
      · exact h
      · split
        · have h1 : DdlInv (updCatalog (updStored s n (dropCol c)) n (colsDrop c)) := by
            apply updCatalog_inv
            apply updStored_inv _ _ _ h
            intro t ht r' hr'
            unfold dropCol colsDrop at hr' ⊢
            cases hk : t.cols.idxOf? c with
            | none => simp only [hk] at hr' ⊢; exact ht r' hr'
            | some k =>
              simp only [hk, List.mem_map] at hr' ⊢
              obtain ⟨r0, hr0, rfl⟩ := hr'
              simp only [List.length_eraseIdx, ht r0 hr0]
          obtain ⟨a, b, c3⟩ := h1
          exact ⟨a, fun ix hix => b ix (List.mem_filter.mp hix).1, c3⟩
        · exact h

theorem C33_init : DdlInv init := by
  refine ⟨rfl, ?_, ?_⟩
  · intro ix h; cases h
  · intro e h; cases h

/-- after any history of DDL and DML, whatever names are reused, the registries are consistent -/
theorem C33_history_preserves (ops : List DOp) : ∀ s, DdlInv s → DdlInv (run norm s ops) := by
  induction ops with
  | nil => intro s h; exact h
  | cons op ops ih => intro s h; exact ih _ (C33_step_preserves norm s op h)

/-- a dropped table leaves no index, no catalog entry and no stored table behind -/
theorem C33_dropped_table_leaves_nothing (s : DState) (n : String)
    (hok : (step norm s (.dropTable n)).2 = none) :
    (∀ ix ∈ (step norm s (.dropTable n)).1.reg, ix.table ≠ n) ∧
    n ∉ (step norm s (.dropTable n)).1.catalog.map (fun e => e.1) ∧
    n ∉ (step norm s (.dropTable n)).1.stored.map (fun e => e.1) := by
  simp only [step] at hok ⊢
  by_cases hc : (catCols s n).isSome = true
  · simp only [hc, ↓reduceIte]
    refine ⟨?_, ?_, ?_⟩
    · intro ix hix
      simpa using (List.mem_filter.mp hix).2
    · simp [List.mem_filter]
    · simp [List.mem_filter]
  · simp [hc] at hok

/-- a table re-created under a dropped name starts empty, with the new columns and no index -/
theorem C33_recreated_table_is_fresh (s : DState) (n : String) (cols : List String)
    (hd : (step norm s (.dropTable n)).2 = none) :
    let s2 := (step norm (step norm s (.dropTable n)).1 (.createTable n cols)).1
    stTable s2 n = some { cols := cols, rows := [] } ∧ catCols s2 n = some cols ∧
      ∀ ix ∈ s2.reg, ix.table ≠ n := by
  obtain ⟨h1, h2, h3⟩ := C33_dropped_table_leaves_nothing norm s n hd
  generalize (step norm s (.dropTable n)).1 = s1 at h1 h2 h3
  have hnone : (catCols s1 n).isSome = false := by
    cases hh : (catCols s1 n).isSome with
    | false => rfl
    | true => exact absurd ((catCols_isSome s1 n).mp hh) h2
  have hf1 : s1.stored.find? (fun e => e.1 == n) = none := by
    rw [List.find?_eq_none]
    intro e he hen
    apply h3
    exact List.mem_map.mpr ⟨e, he, by simpa using hen⟩
  have hf2 : s1.catalog.find? (fun e => e.1 == n) = none := by
    rw [List.find?_eq_none]
    intro e he hen
    apply h2
    exact List.mem_map.mpr ⟨e, he, by simpa using hen⟩
  simp only [step, hnone, Bool.false_eq_true, ↓reduceIte]
  refine ⟨?_, ?_, h1⟩
  · simp [stTable, List.find?_append, hf1]
  · simp [catCols, List.find?_append, hf2]

/-- ADD COLUMN keeps every existing value: each stored row is the old row with one NULL appended -/
theorem C33_add_column_keeps_data (t : STable) (c : String) :
    (addCol c t).cols = t.cols ++ [c] ∧ (addCol c t).rows.map (fun r => r.dropLast) = t.rows := by
  simp [addCol, colsAdd, List.map_map, Function.comp_def]

/-- catalog and storage agree on the declared columns of every table -/
def Agree (s : DState) : Prop :=
  ∀ n tc t, catCols s n = some tc → stTable s n = some t → tc = t.cols

/-- storage schemas are the catalog entries, table by table -/
def Lock (s : DState) : Prop := s.stored.map (fun e => (e.1, e.2.cols)) = s.catalog

theorem Lock_catCols (s : DState) (h : Lock s) (n : String) :
    catCols s n = (stTable s n).map (fun t => t.cols) := by
  unfold catCols stTable
  rw [← h, List.find?_map]
  simp only [Option.map_map, Function.comp_def]

theorem Lock_agree (s : DState) (h : Lock s) : Agree s := by
  intro n tc t hc ht
  rw [Lock_catCols s h n, ht] at hc
  simpa using hc.symm

theorem updStored_lock (s : DState) (n : String) (f : STable → STable) (h : Lock s)
    (hf : ∀ t, (f t).cols = t.cols) : Lock (updStored s n f) := by
  unfold Lock at h ⊢
  simp only [updStored, List.map_map]
  rw [← h]
  apply List.map_congr_left
  intro e _
  simp only [Function.comp]
  split
  · rw [hf]
  · rfl

/-- ALTER: the stored schema and the catalog entry change together -/
theorem alter_lock (s : DState) (n : String) (f : STable → STable) (g : List String → List String)
    (h : Lock s) (hfg : ∀ t, (f t).cols = g t.cols) : Lock (updCatalog (updStored s n f) n g) := by
  unfold Lock at h ⊢
  simp only [updCatalog, updStored, List.map_map]
  rw [← h, List.map_map]
  apply List.map_congr_left
  intro e _
  simp only [Function.comp]
  split
  · rw [hfg]
  · rfl

theorem step_lock (s : DState) (op : DOp) (h : Lock s) : Lock (step norm s op).1 := by
  cases op with
  | createTable n cols =>
    simp only [step]; split
    · exact h
    · simp only [Lock, List.map_append, List.map_cons, List.map_nil] at h ⊢; rw [h]
  | dropTable n =>
    simp only [step]; split
    · simp only [Lock] at h ⊢
      rw [← h, List.filter_map]; rfl
    · exact h
  | createIndex i n cols =>
    simp only [step]; split
    · exact h
    · split
      · split <;> exact h
      · exact h
  | dropIndex i =>
    simp only [step]; split
    · exact h
    · split <;> exact h
  | insert n r =>
    simp only [step]; split
    · split
      · exact h
      · split
        · exact h
        · apply updStored_lock _ _ _ h
          intro t; unfold pushRow; split <;> rfl
    · exact h
  | clear n =>
    simp only [step]; split
    · exact updStored_lock _ _ _ h (fun _ => rfl)
    · exact h
  | addColumn n c =>
    simp only [step]; split
    · exact h
    · split
      · exact h
      · exact alter_lock _ _ _ _ h (fun _ => rfl)
  | dropColumn n c =>
    simp only [step]; split
    · exact h
    · split
      · exact h
      · split
        · exact alter_lock _ _ _ _ h (fun _ => rfl)
        · exact h
  | changeColumn n old new =>
    simp only [step]; split
    · exact h
    · split
      · split
        · exact h
        · exact alter_lock _ _ _ _ h (fun _ => rfl)
      · exact h
  | modifyColumn n c =>
    simp only [step]; split
    · exact h
    · split <;> exact h

theorem run_lock (ops : List DOp) : ∀ s, Lock s → Lock (run norm s ops) := by
  induction ops with
  | nil => intro s h; exact h
  | cons op ops ih => intro s h; exact ih _ (step_lock norm s op h)

/-- after EVERY history (CREATE/DROP TABLE, CREATE/DROP INDEX, INSERT, DELETE/TRUNCATE, ALTER TABLE
ADD/DROP COLUMN, names reused) catalog and storage agree on the columns of every table -/
theorem C33_agree (ops : List DOp) : Agree (run norm init ops) :=
  Lock_agree _ (run_lock norm ops init rfl)

/-- hence every listed table accepts a row of its declared width -/
theorem C33_insert_of_declared_width_accepted (ops : List DOp) (n : String) (tc : List String)
    (r : Row) (hc : catCols (run norm init ops) n = some tc) (hr : r.length = tc.length) :
    (step norm (run norm init ops) (.insert n r)).2 = none := by
  have hl := run_lock norm ops init rfl
  generalize run norm init ops = s at hc hl
  have h1 := Lock_catCols s hl n
  rw [hc] at h1
  cases ht : stTable s n with
  | none => rw [ht] at h1; cases h1
  | some t =>
    rw [ht] at h1
    simp only [Option.map_some, Option.some.injEq] at h1
    simp only [step, hc, ht]
    simp [hr, h1]

/-- ALTER leaves the table usable: the widened table accepts the wider row and the old width is
refused; an index on a dropped column goes away with it -/
theorem C33_alter_keeps_table_usable :
    let s := run (fun x => x) init [.createTable "T" ["A", "B"], .createIndex "I" "T" ["B"], .insert "T" [.int 1, .int 2],
      .addColumn "T" "C", .insert "T" [.int 3, .int 4, .int 5], .dropColumn "T" "B"]
    catCols s "T" = some ["A", "C"] ∧
    stTable s "T" = some { cols := ["A", "C"], rows := [[.int 1, .null], [.int 3, .int 5]] } ∧
    s.reg = [] ∧ (step (fun x => x) s (.insert "T" [.int 6, .int 7])).2 = none ∧
    (step (fun x => x) s (.insert "T" [.int 6, .int 7, .int 8])).2 = some .columnCount := by
  decide

/-- the indexes offered to a query on a stored table `n` are indexes OF table `n` — whatever
other tables exist under names that differ only by case (true since fix 2e2a3d24; before it
the index of `"t"` was offered to queries on `T`) -/
theorem C33_index_lookup (norm : String → String) (s : DState) (n : String) (ix : DIndex)
    (h : DdlInv s) (hn : n ∈ s.stored.map (fun e => e.1)) (hix : ix ∈ indexesFor norm s n) :
    ix.table = n := by
  obtain ⟨h1, h2, _⟩ := h
  obtain ⟨hreg, hf⟩ := List.mem_filter.mp hix
  have ht : ix.table ∈ s.stored.map (fun e => e.1) := by
    have := h2 ix hreg
    unfold Names at h1
    rw [h1] at this; exact this
  simp only [Bool.and_eq_true, Bool.or_eq_true, beq_iff_eq] at hf
  rcases hf.2 with heq | hres
  · exact heq
  · simp only [resolve, hn, ht, ↓reduceIte, beq_iff_eq] at hres
    exact hres.symm

/-- non-vacuity: `"t"` and `T` both exist, each with an index; each lookup returns its own -/
example :
    let s := run (fun x => x) init [.createTable "t" ["A"], .createTable "T" ["A"], .createIndex "I1" "t" ["A"],
      .createIndex "I2" "T" ["A"]]
    let up : String → String := fun x => if x = "t" then "T" else x
    (indexesFor up s "T").map (fun ix => ix.name) = ["I2"] ∧
    (indexesFor up s "t").map (fun ix => ix.name) = ["I1"] := by
  decide

/-! ### catalog index list = storage registry, for every key normalisation

The catalog addresses an index by (table, name AS WRITTEN), the storage registry by the
NORMALISED name.  `RegInv`: the registry's metadata, in order, is the catalog's list; every key is
the normalised name of its metadata; keys are distinct.  It is preserved by every statement for an
ARBITRARY normalisation function `norm`, because every executor that removes a registry entry
removes the catalog entry under the name stored in that entry's metadata
(`catalog.drop_index(&metadata.table_name, &metadata.index_name)`), never under the key. -/

def RegInv (s : DState) : Prop :=
  s.sreg.map (fun e => e.2) = s.reg ∧ (∀ e ∈ s.sreg, e.1 = norm e.2.name) ∧
  (s.sreg.map (fun e => e.1)).Nodup

theorem key_inj (l : List (String × DIndex)) (hn : (l.map (fun e => e.1)).Nodup) :
    ∀ e ∈ l, ∀ e' ∈ l, e.1 = e'.1 → e = e' := by
  induction l with
  | nil => intro e he; cases he
  | cons a l ih =>
    simp only [List.map_cons, List.nodup_cons, List.mem_map, not_exists, not_and] at hn
    intro e he e' he' hk
    simp only [List.mem_cons] at he he'
    rcases he with rfl | he <;> rcases he' with rfl | he'
    · rfl
    · exact absurd hk.symm (hn.1 e' he')
    · exact absurd hk (hn.1 e he)
    · exact ih hn.2 e he e' he' hk

theorem RegInv_congr (s s' : DState) (h : RegInv norm s) (h1 : s'.reg = s.reg) (h2 : s'.sreg = s.sreg) :
    RegInv norm s' := by
  unfold RegInv at h ⊢; rw [h1, h2]; exact h

/-- removing from both lists by predicates that agree entry by entry keeps them in step -/
theorem sync_filter (s : DState) (p : String × DIndex → Bool) (q : DIndex → Bool)
    (h : RegInv norm s) (hpq : ∀ e ∈ s.sreg, p e = q e.2) :
    RegInv norm { s with sreg := s.sreg.filter p, reg := s.reg.filter q } := by
  obtain ⟨h1, h2, h3⟩ := h
  refine ⟨?_, ?_, ?_⟩
  · simp only
    rw [← h1, List.filter_map]
    congr 1
    apply List.filter_congr
    intro e he; exact hpq e he
  · intro e he; exact h2 e (List.mem_filter.mp he).1
  · exact h3.sublist ((List.filter_sublist).map _)

/-- the catalog entries addressed by the metadata of the registry entries naming column `c` of
table `n` are exactly the catalog entries naming it — whatever the registry's key normalisation -/
theorem addressed_iff (s : DState) (n c : String) (h : RegInv norm s) (e : String × DIndex)
    (he : e ∈ s.sreg) :
    addressed (s.sreg.filter (fun e => namesCol n c e.2)) e.2 = namesCol n c e.2 := by
  obtain ⟨_, h2, h3⟩ := h
  cases hc : namesCol n c e.2 with
  | true =>
    simp only [addressed, List.any_eq_true, List.mem_filter, Bool.and_eq_true, beq_iff_eq]
    exact ⟨e, ⟨he, hc⟩, rfl, rfl⟩
  | false =>
    simp only [addressed, List.any_eq_false, List.mem_filter, Bool.and_eq_true, beq_iff_eq, not_and]
    intro v hv ht hname
    have hk : v.1 = e.1 := by rw [h2 v hv.1, h2 e he, hname]
    have := key_inj _ h3 v hv.1 e he hk
    subst this
    rw [hc] at hv; exact absurd hv.2 (by simp)

/-- ALTER TABLE … DROP COLUMN removes from BOTH lists exactly the indexes whose metadata names the
dropped column, for every spelling of the index names and every key normalisation -/
theorem C33_drop_column_removes_exactly (s : DState) (n c : String) (h : RegInv norm s)
    (hok : (step norm s (.dropColumn n c)).2 = none) :
    (step norm s (.dropColumn n c)).1.reg = s.reg.filter (fun d => !(namesCol n c d)) ∧
    (step norm s (.dropColumn n c)).1.sreg = s.sreg.filter (fun e => !(namesCol n c e.2)) := by
  simp only [step] at hok ⊢
  split at hok
  · cases hok
  · split at hok
    · cases hok
    · split at hok
      · rename_i h1 h2 h3
        simp only [h1, h2, h3, ↓reduceIte, updCatalog, updStored, and_true]
        rw [← h.1, List.filter_map, List.filter_map]
        congr 1
        apply List.filter_congr
        intro e he
        simp only [Function.comp]
        rw [addressed_iff norm s n c h e he]
      · cases hok

theorem RegInv_init : RegInv norm init := by
  refine ⟨rfl, ?_, List.nodup_nil⟩
  intro e he; cases he

/-- every statement keeps the catalog's index list and the storage registry in step -/
theorem C33_registries_step (s : DState) (op : DOp) (h : RegInv norm s) :
    RegInv norm (step norm s op).1 := by
  cases op with
  | createTable n cols =>
    simp only [step]; split
    · exact h
    · exact RegInv_congr norm s _ h rfl rfl
  | dropTable n =>
    simp only [step]; split
    · have := sync_filter norm s
        (fun e => !((s.reg.filter (fun ix => decide (ix.table = n))).any (fun d => norm d.name == e.1)))
        (fun ix => decide (ix.table ≠ n)) h (by
          intro e he
          obtain ⟨h1, h2, h3⟩ := h
          by_cases ht : e.2.table = n
          · have hmem : e.2 ∈ s.reg := by rw [← h1]; exact List.mem_map.mpr ⟨e, he, rfl⟩
            have : (s.reg.filter (fun ix => decide (ix.table = n))).any (fun d => norm d.name == e.1) = true := by
              simp only [List.any_eq_true, List.mem_filter, decide_eq_true_eq, beq_iff_eq]
              exact ⟨e.2, ⟨hmem, ht⟩, (h2 e he).symm⟩
            simp [this, ht]
          · have : (s.reg.filter (fun ix => decide (ix.table = n))).any (fun d => norm d.name == e.1) = false := by
              simp only [List.any_eq_false, List.mem_filter, decide_eq_true_eq, beq_iff_eq]
              rintro d ⟨hd, hdt⟩ hk
              rw [← h1] at hd
              obtain ⟨e', he', rfl⟩ := List.mem_map.mp hd
              have hk2 : e'.1 = e.1 := by rw [h2 e' he']; exact hk
              have := key_inj _ h3 e' he' e he hk2
              subst this; exact ht hdt
            simp [this, ht])
      exact RegInv_congr norm _ _ this rfl rfl
    · exact h
  | createIndex i n cols =>
    simp only [step]; split
    · exact h
    · split
      · split
        · exact h
        · rename_i hnot
          obtain ⟨h1, h2, h3⟩ := h
          refine ⟨by simp [h1], ?_, ?_⟩
          · intro e he
            simp only [List.mem_append, List.mem_singleton] at he
            rcases he with he | rfl
            · exact h2 e he
            · rfl
          · simp only [List.map_append, List.map_cons, List.map_nil]
            rw [List.nodup_append]
            refine ⟨h3, by simp, ?_⟩
            intro a ha b hb
            simp only [List.mem_singleton] at hb
            intro hab
            apply hnot
            obtain ⟨e, he, hea⟩ := List.mem_map.mp ha
            simp only [List.any_eq_true, beq_iff_eq]
            exact ⟨e, he, by rw [hea, hab, hb]⟩
      · exact h
  | dropIndex i =>
    simp only [step]; split
    · rename_i m hm
      have hm1 := List.find?_some hm
      have hm2 := List.mem_of_find?_eq_some hm
      simp only [beq_iff_eq] at hm1
      have := sync_filter norm s (fun e => !(e.1 == norm i)) (fun d => !(d.table == m.table && d.name == i)) h (by
        intro e he
        obtain ⟨h1, h2, h3⟩ := h
        rw [← h1] at hm2
        obtain ⟨em, hem, hmeq⟩ := List.mem_map.mp hm2
        by_cases hk : e.1 = norm i
        · have hkm : em.1 = e.1 := by rw [h2 em hem, hmeq, hm1, hk]
          have := key_inj _ h3 em hem e he hkm
          subst this
          simp [hk, hmeq, hm1]
        · have : ¬ (e.2.table = m.table ∧ e.2.name = i) := by
            rintro ⟨_, hn⟩; apply hk; rw [h2 e he, hn]
          have hb1 : (e.1 == norm i) = false := by simpa using hk
          have hb3 : (e.2.table == m.table && e.2.name == i) = false := by
            cases hx : (e.2.table == m.table && e.2.name == i) with
            | false => rfl
            | true => simp only [Bool.and_eq_true, beq_iff_eq] at hx; exact absurd hx this
          simp only [hb1, hb3])
      exact RegInv_congr norm _ _ this rfl rfl
    · split
      · rename_i v hv
        have hv1 := List.find?_some hv
        have hv2 := List.mem_of_find?_eq_some hv
        simp only [beq_iff_eq] at hv1
        have := sync_filter norm s (fun e => !(e.1 == norm i)) (fun d => !(d.table == v.2.table && d.name == v.2.name)) h (by
          intro e he
          obtain ⟨h1, h2, h3⟩ := h
          by_cases hk : e.1 = norm i
          · have := key_inj _ h3 v hv2 e he (by rw [hv1, hk])
            subst this
            simp [hk]
          · have : ¬ (e.2.table = v.2.table ∧ e.2.name = v.2.name) := by
              rintro ⟨_, hn⟩; apply hk; rw [h2 e he, hn, ← h2 v hv2, hv1]
            have hb1 : (e.1 == norm i) = false := by simpa using hk
            have hb3 : (e.2.table == v.2.table && e.2.name == v.2.name) = false := by
              cases hx : (e.2.table == v.2.table && e.2.name == v.2.name) with
              | false => rfl
              | true => simp only [Bool.and_eq_true, beq_iff_eq] at hx; exact absurd hx this
            simp only [hb1, hb3])
        exact RegInv_congr norm _ _ this rfl rfl
      · exact h
  | insert n r =>
    simp only [step]; split
    · split
      · exact h
      · split
        · exact h
        · exact RegInv_congr norm s _ h rfl rfl
    · exact h
  | clear n =>
    simp only [step]; split
    · exact RegInv_congr norm s _ h rfl rfl
    · exact h
  | addColumn n c =>
    simp only [step]; split
    · exact h
    · split
      · exact h
      · exact RegInv_congr norm s _ h rfl rfl
  | dropColumn n c =>
    simp only [step]; split
    · exact h
    · split
      · exact h
      · split
        · have := sync_filter norm s (fun e => !(namesCol n c e.2))
            (fun d => !(addressed (s.sreg.filter (fun e => namesCol n c e.2)) d)) h (by
              intro e he; rw [addressed_iff norm s n c h e he])
          exact RegInv_congr norm _ _ this rfl rfl
        · exact h
  | changeColumn n old new =>
    simp only [step]; split
    · exact h
    · split
      · split
        · exact h
        · obtain ⟨h1, h2, h3⟩ := h
          refine ⟨?_, ?_, ?_⟩
          · simp only [updCatalog, updStored, List.map_map]
            rw [← h1, List.map_map]
            apply List.map_congr_left
            intro e he
            simp only [Function.comp]
            have ha := addressed_iff norm s n old ⟨h1, h2, h3⟩ e he
            by_cases hc : namesCol n old e.2 = true
            · rw [hc] at ha; simp [hc, ha]
            · simp only [Bool.not_eq_true] at hc
              rw [hc] at ha; simp [hc, ha]
          · intro e he
            simp only [updCatalog, updStored, List.mem_map] at he
            obtain ⟨e0, he0, rfl⟩ := he
            split
            · exact h2 e0 he0
            · exact h2 e0 he0
          · simp only [updCatalog, updStored, List.map_map]
            have : (List.map ((fun e : String × DIndex => e.1) ∘ fun e => if namesCol n old e.2 = true then (e.1, { e.2 with cols := colsRename old new e.2.cols }) else e) s.sreg)
                = s.sreg.map (fun e => e.1) := by
              apply List.map_congr_left
              intro e _
              simp only [Function.comp]
              split <;> rfl
            rw [this]; exact h3
      · exact h
  | modifyColumn n c =>
    simp only [step]; split
    · exact h
    · split <;> exact h

/-- after every history the catalog's index list and the storage registry hold the same indexes
under the same names, whatever spelling the names have and whatever the key normalisation is -/
theorem C33_registries_agree (ops : List DOp) : RegInv norm (run norm init ops) := by
  have : ∀ s, RegInv norm s → RegInv norm (run norm s ops) := by
    induction ops with
    | nil => intro s h; exact h
    | cons op ops ih => intro s h; exact ih _ (C33_registries_step norm s op h)
  exact this init (RegInv_init norm)

/-- non-vacuity with a real normalisation clash: delimited lower-case and unquoted names, an
index named like another up to case is refused, DROP COLUMN removes the delimited-name index from
both lists -/
example :
    let up : String → String := fun x => if x = "idx_a" then "IDX_A" else if x = "ix1" then "IX1" else x
    let s := run up init [.createTable "T" ["A", "B"], .createIndex "idx_a" "T" ["A"], .createIndex "IX1" "T" ["B"],
      .createIndex "ix1" "T" ["A"], .dropColumn "T" "A"]
    s.reg.map (fun d => d.name) = ["IX1"] ∧ s.sreg.map (fun e => e.1) = ["IX1"] ∧
    (step up s (.createIndex "idx_a" "T" ["B"])).2 = none := by
  decide

/-! ### an index is (re)built from the rows of ITS OWN table

Tables are addressed by the name as stored; `"t"` and `T` are different entries.  The contents a
rebuild gives an index are a function of `stTable s ix.table` only. -/

/-- the keys a rebuild of `ix` produces: the index columns of every row of the table `ix` names -/
def indexContents (s : DState) (ix : DIndex) : Option (List (List (Option Value))) :=
  (stTable s ix.table).map (fun t =>
    t.rows.map (fun r => ix.cols.map (fun c => (t.cols.idxOf? c).bind (fun k => r[k]?))))

/-- whatever happens to the stored table `n'` (DML, ALTER, a rebuild after it), the stored table
of a different name `n` is untouched — in particular when the two names differ only by case -/
theorem stTable_other (s : DState) (n n' : String) (f : STable → STable) (h : n ≠ n') :
    stTable (updStored s n' f) n = stTable s n := by
  unfold stTable updStored
  simp only
  induction s.stored with
  | nil => rfl
  | cons e l ih =>
    simp only [List.map_cons, List.find?_cons]
    by_cases he : e.1 = n'
    · have hne : ¬ e.1 = n := fun h2 => h (h2.symm.trans he)
      simp only [he, ↓reduceIte]
      have h1 : (n' == n) = false := by simpa using (fun h3 : n' = n => h h3.symm)
      have h2 : (e.1 == n) = false := by simpa using hne
      simp only [h1, h2]
      exact ih
    · simp only [he, ↓reduceIte]
      cases hb : (e.1 == n) with
      | true => rfl
      | false => exact ih

/-- hence a rebuild of an index of `n` after any change to a namesake `n'` (for every pair of
different names, e.g. `"t"` and `T`) yields exactly the keys of `n`'s own rows -/
theorem C33_rebuild_reads_own_table (s : DState) (ix : DIndex) (n' : String) (f : STable → STable)
    (h : ix.table ≠ n') : indexContents (updStored s n' f) ix = indexContents s ix := by
  unfold indexContents
  rw [stTable_other s ix.table n' f h]

example :
    let s := run (fun x => x) init [.createTable "t" ["A"], .createTable "T" ["A"], .insert "T" [.int 8],
      .createIndex "I" "t" ["A"], .addColumn "t" "B"]
    indexContents s { name := "I", table := "t", cols := ["A"] } = some [] ∧
    indexContents s { name := "J", table := "T", cols := ["A"] } = some [[some (.int 8)]] := by
  decide

/-- non-vacuity: a history with name reuse, an index, rows, and ALTER; the invariant holds and
the tables are not empty -/
example :
    let s := run (fun x => x) init [.createTable "T" ["A", "B"], .createIndex "I" "T" ["B"], .insert "T" [.int 1, .int 2],
      .dropTable "T", .createTable "T" ["X"], .insert "T" [.int 5], .createTable "t" ["A"], .addColumn "T" "Y"]
    s.catalog.map (fun e => e.1) = ["T", "t"] ∧ s.reg = [] ∧
      stTable s "T" = some { cols := ["X", "Y"], rows := [[.int 5, .null]] } := by
  decide

end VibeProof.C33
