import VibeProof.Props.C15
#print axioms VibeProof.C15.C15_hash_insert
#print axioms VibeProof.C15.C15_user_insert
#print axioms VibeProof.C15.C15_hash_rebuild
#print axioms VibeProof.C15.C15_user_rebuild
#print axioms VibeProof.C15.C15_user_update_patch_eq_rebuild
#print axioms VibeProof.C15.C15_hash_update_eq_rebuild
#print axioms VibeProof.C15.C15_hash_update_other_holder_counterexample
#print axioms VibeProof.C15.C15_step_preserves
#print axioms VibeProof.C15.C15_init
#print axioms VibeProof.C15.C15_history_preserves
#print axioms VibeProof.C15.C15_history_without_update
#print axioms VibeProof.C15.C15_mirror_is_rebuild
#print axioms VibeProof.C15.C15_index_lookup_is_scan
#print axioms VibeProof.C15.C15_hash_uniqueness_check
#print axioms VibeProof.C15.C15_user_uniqueness_check
