import VibeProof.Model.Codec
import VibeProof.Model.Join
open VibeProof VibeProof.Proto VibeProof.Codec VibeProof.Join

def keyAt (i : Nat) (r : Row) : Value := (r[i]?).getD .null

/-- `join|nested|semi|anti|notin KL KR (left rows) (right rows)` → `(rows R…)`;
    `notin` is the definitional TRUE-set of `x NOT IN (S)` (the spec), `anti` the algorithm,
    `notinaware` the engine's conversion of a user-written NOT IN (anti join + NULL guard). -/
def handle : List Sx → Sx
  | [.atom op, .atom kl, .atom kr, l, r] =>
    match kl.toNat?, kr.toNat?, decRows l, decRows r with
    | some i, some j, some ls, some rs =>
      let out := match op with
        | "join" => some (hashJoinInner (keyAt i) (keyAt j) ls rs)
        | "nested" => some (nestedLoop (keyAt i) (keyAt j) ls rs)
        | "semi" => some (hashSemi (keyAt i) (keyAt j) ls rs)
        | "anti" => some (hashAnti (keyAt i) (keyAt j) ls rs)
        | "notinaware" => some (notInNullAware (keyAt i) (keyAt j) ls rs)
        | "notin" => some (filter3 (fun x => TV.not3 (inTV (keyAt i x) (rs.map (keyAt j)))) ls)
        | "in" => some (filter3 (fun x => inTV (keyAt i x) (rs.map (keyAt j))) ls)
        | _ => none
      match out with
      | some rows => .list [.atom "rows", encRows rows]
      | none => .atom "bad-request"
    | _, _, _, _ => .atom "bad-request"
  | _ => .atom "bad-request"

def main : IO Unit := runDriver handle
