import VibeProof.Model.SqlOrd
import VibeProof.Lemmas.OrdLaws
/-
C21 — SQL value equality, ordering and hashing are mutually consistent.
Model: Model/SqlOrd.lean (`SV.eqv` = `impl PartialEq`, `SV.cmp` = `impl Ord`,
`SV.hashWords` = what `impl Hash` writes).  All statements quantify over every value of all
16 variants: unbounded integers, every float class, arbitrary byte strings, arbitrary
temporal components, arbitrary interval numbers.
-/
namespace VibeProof.C21
open VibeProof.SqlOrd

/-! ### the cross-type table extracted from comparison.rs -/

/-- every variant has a `type_tag` entry (the `getD` default in `tagOfKind` is dead) -/
theorem C21_type_tags_total (k : Kind) :
    (Generated.crossTypeOrder.lookup k.name).isSome = true := by
  cases k <;> decide

/-- distinct non-NULL variants have distinct `type_tag`s -/
theorem C21_type_tags_injective (k1 k2 : Kind) (h1 : k1 ≠ .null) (h2 : k2 ≠ .null)
    (h : tagOfKind k1 = tagOfKind k2) : k1 = k2 := by
  cases k1 <;> cases k2 <;> first | rfl | exact absurd rfl h1 | exact absurd rfl h2 | (revert h; decide)

/-- the declaration-order table has exactly the 16 variants, each once -/
theorem C21_discriminants_injective (k1 k2 : Kind) (h : discrOfKind k1 = discrOfKind k2) :
    k1 = k2 := by
  cases k1 <;> cases k2 <;> first | rfl | (revert h; decide)

/-! ### `cmp` is the lexicographic order of `ordKey` -/

theorem tag_nonneg (k : Kind) : 0 ≤ tagOfKind k := by
  unfold tagOfKind; omega

/-- head of the sort key: 0 for NULL, `type_tag + 1` otherwise -/
def headTag (v : SV) : Int := if v.kind = .null then 0 else tagOfKind v.kind + 1

theorem headTag_inj {a b : SV} (h : headTag a = headTag b) : a.kind = b.kind := by
  unfold headTag at h
  have ha := tag_nonneg a.kind
  have hb := tag_nonneg b.kind
  by_cases na : a.kind = .null <;> by_cases nb : b.kind = .null <;> simp [na, nb] at h
  · rw [na, nb]
  · omega
  · omega
  · exact C21_type_tags_injective _ _ na nb h

theorem ordKey_head (a : SV) : ∃ p, a.ordKey = headTag a :: p := by
  cases a <;> simp [SV.ordKey, headTag, SV.kind]

theorem then_assoc (a b c : Ordering) : (a.then b).then c = a.then (b.then c) := by
  cases a <;> rfl

theorem then_eq_right (a : Ordering) : a.then .eq = a := by cases a <;> rfl

theorem cmpLex_single (i j : Int) : cmpLex [i] [j] = cmpInt i j := by
  simp [cmpLex, then_eq_right]

theorem F.total_eq_lex (x y : F) :
    (match F.partialCmp x y with
      | some o => o
      | none => F.nanOrder x y) = cmpLex x.line y.line := by
  cases x with
  | nan =>
    cases y with
    | nan => simp [F.partialCmp, F.isNan, F.nanOrder, F.line, cmpLex_refl]
    | inf n => cases n <;> simp [F.partialCmp, F.isNan, F.nanOrder, F.line, cmpLex, cmpInt, Ordering.then]
    | fin n m => simp [F.partialCmp, F.isNan, F.nanOrder, F.line, cmpLex, cmpInt, Ordering.then]
  | inf n' =>
    cases y with
    | nan => cases n' <;> simp [F.partialCmp, F.isNan, F.nanOrder, F.line, cmpLex, cmpInt, Ordering.then]
    | inf n => simp [F.partialCmp, F.isNan]
    | fin n m => simp [F.partialCmp, F.isNan]
  | fin n' m' =>
    cases y with
    | nan => simp [F.partialCmp, F.isNan, F.nanOrder, F.line, cmpLex, cmpInt, Ordering.then]
    | inf n => simp [F.partialCmp, F.isNan]
    | fin n m => simp [F.partialCmp, F.isNan]

theorem Date.cmp_eq_lex (a b : Date) :
    Date.cmp a b = cmpLex [a.year, a.month, a.day] [b.year, b.month, b.day] := by
  simp [Date.cmp, cmpLex, then_eq_right]

theorem Time.cmp_eq_lex (a b : Time) :
    Time.cmp a b = cmpLex [a.hour, a.minute, a.second, a.nano] [b.hour, b.minute, b.second, b.nano] := by
  simp [Time.cmp, cmpLex, then_eq_right]

theorem ts_cmp_eq_lex (d1 d2 : Date) (t1 t2 : Time) :
    (Date.cmp d1 d2).then (Time.cmp t1 t2) =
      cmpLex [d1.year, d1.month, d1.day, t1.hour, t1.minute, t1.second, t1.nano]
             [d2.year, d2.month, d2.day, t2.hour, t2.minute, t2.second, t2.nano] := by
  simp [Date.cmp, Time.cmp, cmpLex, then_eq_right, then_assoc]

/-- different non-NULL variants are ordered by `type_tag` -/
theorem cmp_diff_kind {a b : SV} (hk : a.kind ≠ b.kind) (ha : a.kind ≠ .null) (hb : b.kind ≠ .null) :
    SV.cmp a b = cmpInt (tagOfKind a.kind) (tagOfKind b.kind) := by
  cases a <;> cases b <;>
    first
    | exact absurd rfl hk
    | exact absurd rfl ha
    | exact absurd rfl hb
    | rfl

theorem kind_null {a : SV} (h : a.kind = .null) : a = .null := by
  cases a <;> simp [SV.kind] at h; rfl

theorem cmp_null_left {b : SV} (hb : b.kind ≠ .null) : SV.cmp .null b = .lt := by
  cases b <;> first | exact absurd rfl hb | rfl

theorem cmp_null_right {a : SV} (ha : a.kind ≠ .null) : SV.cmp a .null = .gt := by
  cases a <;> first | exact absurd rfl ha | rfl

theorem cmp_same_kind {a b : SV} (hk : a.kind = b.kind) : SV.cmp a b = cmpLex a.ordKey b.ordKey := by
  cases a <;> cases b <;> first | (simp [SV.kind] at hk; done) | skip
  all_goals simp only [SV.cmp, SV.partialCmp, SV.ordKey, cmpLex_cons_same, cmpLex_single,
      Date.cmp_eq_lex, Time.cmp_eq_lex, Interval.cmp, cmpLex_refl]
  all_goals first | rfl | exact F.total_eq_lex _ _ | simp [cmpLex, then_eq_right, then_assoc]

theorem cmp_eq_lex (a b : SV) : SV.cmp a b = cmpLex a.ordKey b.ordKey := by
  by_cases hk : a.kind = b.kind
  · exact cmp_same_kind hk
  · obtain ⟨pa, ea⟩ := ordKey_head a
    obtain ⟨pb, eb⟩ := ordKey_head b
    have hne : headTag a ≠ headTag b := fun e => hk (headTag_inj e)
    rw [ea, eb, cmpLex_cons_ne hne]
    by_cases na : a.kind = .null
    · have nb : b.kind ≠ .null := fun e => hk (na.trans e.symm)
      have := tag_nonneg b.kind
      have ha := kind_null na
      subst ha
      rw [cmp_null_left nb]
      have h1 : headTag SV.null = 0 := rfl
      have h2 : headTag b = tagOfKind b.kind + 1 := by unfold headTag; rw [if_neg nb]
      symm; rw [cmpInt_lt_iff]; omega
    · by_cases nb : b.kind = .null
      · have := tag_nonneg a.kind
        have hb := kind_null nb
        subst hb
        rw [cmp_null_right na]
        have h1 : headTag SV.null = 0 := rfl
        have h2 : headTag a = tagOfKind a.kind + 1 := by unfold headTag; rw [if_neg na]
        symm; rw [cmpInt_gt_iff]; omega
      · rw [cmp_diff_kind hk na nb]
        simp only [headTag, na, nb, if_false, cmpInt_succ]

/-! ### the total order -/

/-- antisymmetry in its strongest form: swapping the arguments swaps the answer -/
theorem C21_cmp_swap (a b : SV) : SV.cmp b a = (SV.cmp a b).swap := by
  rw [cmp_eq_lex, cmp_eq_lex, cmpLex_swap]

theorem C21_cmp_antisymm (a b : SV) : SV.cmp a b = .lt ↔ SV.cmp b a = .gt := by
  rw [C21_cmp_swap a b]; cases SV.cmp a b <;> simp [Ordering.swap]

theorem C21_cmp_refl (a : SV) : SV.cmp a a = .eq := by
  rw [cmp_eq_lex, cmpLex_refl]

/-- transitivity of `≤` -/
theorem C21_cmp_le_trans (a b c : SV) (h1 : SV.cmp a b ≠ .gt) (h2 : SV.cmp b c ≠ .gt) :
    SV.cmp a c ≠ .gt := by
  rw [cmp_eq_lex] at *; exact cmpLex_le_trans h1 h2

example : SV.cmp (.double (.fin true 0)) (.double (.fin false 0)) ≠ .gt ∧
    SV.cmp (.double (.fin false 0)) (.double .nan) ≠ .gt := by decide

/-- transitivity of `<` -/
theorem C21_cmp_lt_trans (a b c : SV) (h1 : SV.cmp a b = .lt) (h2 : SV.cmp b c = .lt) :
    SV.cmp a c = .lt := by
  have hle : SV.cmp a c ≠ .gt := C21_cmp_le_trans a b c (by simp [h1]) (by simp [h2])
  have hne : SV.cmp a c ≠ .eq := by
    intro he
    have hca : SV.cmp c a ≠ .gt := by rw [C21_cmp_swap a c, he]; simp [Ordering.swap]
    have hcb : SV.cmp c b ≠ .gt := C21_cmp_le_trans c a b hca (by simp [h1])
    rw [C21_cmp_swap b c, h2] at hcb
    exact hcb rfl
  cases h : SV.cmp a c <;> simp_all

example : SV.cmp (.interval ⟨[], 0, 29, 0⟩) (.interval ⟨[], 1, 0, 0⟩) = .lt ∧
    SV.cmp (.interval ⟨[], 1, 0, 0⟩) (.interval ⟨[], 0, 31, 0⟩) = .lt := by decide

/-- values that compare equal are interchangeable in every comparison -/
theorem C21_cmp_congr (a b c : SV) (h : SV.cmp a b = .eq) : SV.cmp a c = SV.cmp b c := by
  rw [cmp_eq_lex a b, cmpLex_eq_iff] at h
  rw [cmp_eq_lex a c, cmp_eq_lex b c, h]

/-! ### the grouping equality -/

/-- key of the grouping equality: the sort key, except that an interval is its three numbers -/
def eqKey : SV → List Int
  | .interval iv => [tagOfKind .interval + 1, iv.months, iv.days, iv.micros]
  | v => v.ordKey

theorem eqv_kind {a b : SV} (h : SV.eqv a b = true) : a.kind = b.kind := by
  cases a <;> cases b <;> first | rfl | (simp [SV.eqv] at h)

theorem eqKey_head (a : SV) : ∃ p, eqKey a = headTag a :: p := by
  cases a <;> simp [eqKey, SV.ordKey, headTag, SV.kind]

theorem bytesKey_inj {a b : Bytes} : bytesKey a = bytesKey b ↔ a = b := by
  constructor
  · intro h
    induction a generalizing b with
    | nil => cases b <;> simp_all [bytesKey]
    | cons x xs ih =>
      cases b with
      | nil => simp [bytesKey] at h
      | cons y ys =>
        simp only [bytesKey, List.map_cons, List.cons.injEq] at h
        have hx : x = y := by
          apply UInt8.toNat_inj.mp
          omega
        rw [hx, ih (b := ys) (by simpa [bytesKey] using h.2)]
  · intro h; rw [h]

theorem F.eqGroup_iff (x y : F) : F.eqGroup x y = true ↔ x.line = y.line := by
  cases x with
  | nan => cases y with
    | nan => simp [F.eqGroup, F.isNan]
    | inf n => cases n <;> simp [F.eqGroup, F.isNan, F.ieeeEq, F.line]
    | fin n m => simp [F.eqGroup, F.isNan, F.ieeeEq, F.line]
  | inf n' => cases y with
    | nan => cases n' <;> simp [F.eqGroup, F.isNan, F.ieeeEq, F.line]
    | inf n => simp [F.eqGroup, F.isNan, F.ieeeEq, cmpLex_eq_iff]
    | fin n m => simp [F.eqGroup, F.isNan, F.ieeeEq, cmpLex_eq_iff]
  | fin n' m' => cases y with
    | nan => simp [F.eqGroup, F.isNan, F.ieeeEq, F.line]
    | inf n => simp [F.eqGroup, F.isNan, F.ieeeEq, cmpLex_eq_iff]
    | fin n m => simp [F.eqGroup, F.isNan, F.ieeeEq, cmpLex_eq_iff]

theorem boolInt_inj {a b : Bool} : boolInt a = boolInt b ↔ a = b := by
  cases a <;> cases b <;> simp [boolInt]

theorem eqv_iff_key (a b : SV) : SV.eqv a b = true ↔ eqKey a = eqKey b := by
  by_cases hk : a.kind = b.kind
  · cases a <;> cases b <;> first | (simp [SV.kind] at hk; done) | skip
    all_goals simp [SV.eqv, eqKey, SV.ordKey, F.eqGroup_iff, bytesKey_inj, boolInt_inj, Interval.eq, and_assoc]
    · rename_i d1 d2; cases d1; cases d2; simp
    · rename_i t1 t2; cases t1; cases t2; simp
    · rename_i d1 t1 d2 t2; cases d1; cases d2; cases t1; cases t2; simp; constructor <;> (intro h; simp [h])
  · constructor
    · intro h; exact absurd (eqv_kind h) hk
    · intro h
      obtain ⟨pa, ea⟩ := eqKey_head a
      obtain ⟨pb, eb⟩ := eqKey_head b
      rw [ea, eb] at h
      exact absurd (headTag_inj (List.cons.inj h).1) hk

theorem C21_eqv_refl (a : SV) : SV.eqv a a = true := (eqv_iff_key a a).mpr rfl

theorem C21_eqv_symm (a b : SV) (h : SV.eqv a b = true) : SV.eqv b a = true :=
  (eqv_iff_key b a).mpr ((eqv_iff_key a b).mp h).symm

theorem C21_eqv_trans (a b c : SV) (h1 : SV.eqv a b = true) (h2 : SV.eqv b c = true) :
    SV.eqv a c = true :=
  (eqv_iff_key a c).mpr (((eqv_iff_key a b).mp h1).trans ((eqv_iff_key b c).mp h2))

example : SV.eqv (.double (.fin true 0)) (.double (.fin false 0)) = true ∧
    SV.eqv (.interval ⟨[49], 12, 0, 0⟩) (.interval ⟨[50], 12, 0, 0⟩) = true := by decide

/-! ### order and equality agree -/

/-- equal values compare `Equal` (all variants) -/
theorem C21_cmp_eq_of_eqv (a b : SV) (h : SV.eqv a b = true) : SV.cmp a b = .eq := by
  rw [cmp_eq_lex, cmpLex_eq_iff]
  have hk := (eqv_iff_key a b).mp h
  cases a <;> cases b <;> first | (have := eqv_kind h; simp [SV.kind] at this; done) | skip
  all_goals first | exact hk | skip
  simp [eqKey] at hk
  simp [SV.ordKey, Interval.cmpValue, hk]

/-- The full statement: the order says `Equal` exactly for equal values. -/
def C21_cmp_eq_iff_eqv_full : Prop := ∀ a b : SV, SV.cmp a b = .eq ↔ SV.eqv a b = true

/-- It holds whenever the two values are not both intervals. -/
theorem C21_cmp_eq_iff_eqv_partial (a b : SV) (h : ¬ (a.isInterval = true ∧ b.isInterval = true)) :
    SV.cmp a b = .eq ↔ SV.eqv a b = true := by
  constructor
  · intro hc
    rw [cmp_eq_lex, cmpLex_eq_iff] at hc
    rw [eqv_iff_key]
    have hk : a.kind = b.kind := by
      obtain ⟨pa, ea⟩ := ordKey_head a
      obtain ⟨pb, eb⟩ := ordKey_head b
      rw [ea, eb] at hc
      exact headTag_inj (List.cons.inj hc).1
    cases a <;> cases b <;> first | (simp [SV.kind] at hk; done) | skip
    all_goals first | exact hc | skip
    simp [SV.isInterval] at h
  · exact C21_cmp_eq_of_eqv a b

example : ¬ ((SV.double .nan).isInterval = true ∧ (SV.interval ⟨[], 1, 0, 0⟩).isInterval = true) := by
  decide

/-- For two intervals the order looks only at `cmp_value`. -/
theorem C21_interval_cmp_eq_iff (x y : Interval) :
    SV.cmp (.interval x) (.interval y) = .eq ↔ x.cmpValue = y.cmpValue := by
  rw [cmp_eq_lex, cmpLex_eq_iff]; simp [SV.ordKey]

/-- `1 MONTH` and `30 DAY` compare `Equal` but are not `==` (pinned by the repository's test
    `test_interval_comparison_month_vs_days`). -/
theorem C21_cmp_eq_iff_eqv_counterexample : ¬ C21_cmp_eq_iff_eqv_full := by
  intro h
  have := (h (.interval ⟨[49, 32, 77, 79, 78, 84, 72], 1, 0, 0⟩)
             (.interval ⟨[51, 48, 32, 68, 65, 89], 0, 30, 0⟩)).mp (by decide)
  revert this; decide

/-! ### equal values hash equally -/

theorem F.hashBits_of_eqGroup (f : FFmt) {x y : F} (h : F.eqGroup x y = true) :
    f.hashBits x = f.hashBits y := by
  rw [F.eqGroup_iff] at h
  cases x with
  | nan => cases y with
    | nan => rfl
    | inf n => cases n <;> simp [F.line] at h
    | fin n m => simp [F.line] at h
  | inf n' => cases y with
    | nan => cases n' <;> simp [F.line] at h
    | inf n => cases n' <;> cases n <;> simp [F.line] at h <;> rfl
    | fin n m => cases n' <;> simp [F.line] at h
  | fin n' m' => cases y with
    | nan => simp [F.line] at h
    | inf n => cases n <;> simp [F.line] at h
    | fin n m =>
      simp only [F.line, List.cons.injEq, and_true, true_and] at h
      cases m' with
      | zero =>
        have : m = 0 := by
          cases n' <;> cases n <;> simp only [F.signed, if_true, if_false, Bool.false_eq_true] at h <;> omega
        subst this; rfl
      | succ k =>
        have hm : m = k + 1 ∧ n = n' := by
          cases n' <;> cases n <;> simp only [F.signed, if_true, if_false, Bool.false_eq_true] at h <;>
            first | exact ⟨by omega, rfl⟩ | (exfalso; omega)
        rw [hm.1, hm.2]

/-- `a == b` implies the hasher is fed the same sequence, hence equal hashes for any hasher -/
theorem C21_hash_of_eqv (a b : SV) (h : SV.eqv a b = true) : a.hashWords = b.hashWords := by
  cases a <;> cases b <;> first | (have := eqv_kind h; simp [SV.kind] at this; done) | skip
  all_goals simp only [SV.eqv, beq_iff_eq, Bool.and_eq_true, Interval.eq] at h
  all_goals first
    | (subst h; rfl)
    | (simp only [SV.hashWords, SV.kind]; rw [F.hashBits_of_eqGroup _ h])
    | (obtain ⟨h1, h2⟩ := h; subst h1; subst h2; rfl)
    | rfl
    | (simp [SV.hashWords, SV.kind, Interval.words, h])

example : (SV.double (.fin true 0)).hashWords = (SV.double (.fin false 0)).hashWords := by decide

/-- why the zero must be canonicalised before hashing: the two zeros have different bits -/
theorem C21_zero_bits_differ : f64.bits (.fin true 0) ≠ f64.bits (.fin false 0) ∧
    f32.bits (.fin true 0) ≠ f32.bits (.fin false 0) := by decide

/-- all the parts that hold of the code, together -/
theorem C21_laws :
    (∀ a, SV.eqv a a = true) ∧
    (∀ a b, SV.eqv a b = true → SV.eqv b a = true) ∧
    (∀ a b c, SV.eqv a b = true → SV.eqv b c = true → SV.eqv a c = true) ∧
    (∀ a b, SV.cmp b a = (SV.cmp a b).swap) ∧
    (∀ a b c, SV.cmp a b ≠ .gt → SV.cmp b c ≠ .gt → SV.cmp a c ≠ .gt) ∧
    (∀ a b, SV.eqv a b = true → SV.cmp a b = .eq) ∧
    (∀ a b, ¬ (a.isInterval = true ∧ b.isInterval = true) → SV.cmp a b = .eq → SV.eqv a b = true) ∧
    (∀ a b, SV.eqv a b = true → a.hashWords = b.hashWords) :=
  ⟨C21_eqv_refl, C21_eqv_symm, C21_eqv_trans, C21_cmp_swap, C21_cmp_le_trans, C21_cmp_eq_of_eqv,
   fun a b h => (C21_cmp_eq_iff_eqv_partial a b h).mp, C21_hash_of_eqv⟩

end VibeProof.C21
