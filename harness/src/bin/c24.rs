//! C24 — statement execution never panics and never silently wraps numbers.
//!
//! Streams (each case: real code in-process under catch_unwind, model through drv_c24, direct oracle):
//!  A  integer expressions (+ - * DIV % unary- ABS, nesting 0..4) over boundary operands, as literals
//!     and as column values  → value-or-error-class vs `Arith.eval`; oracle = exact i128 evaluation
//!  B  SUM ... GROUP BY (row-at-a-time accumulator) vs `Arith.sumAgg`; SUM/AVG without GROUP BY
//!     (columnar path) oracle only
//!  C  SUBSTRING extremes over ASCII / multi-byte strings vs `Arith.substring`
//!  D  LIMIT / OFFSET extremes vs `Arith.limitOffset`
//!  E  `IndexData::range_scan` called directly on in-memory indexes (1 and 2 columns) with
//!     inverted / equal / NULL / mixed-type bounds vs `RangeGuard.scan`; plus the same through SQL
//!     against an index-free twin table
//!  F  statement stream (valid, wrong arity, missing objects, type mismatches, extreme literals):
//!     no panic, database usable afterwards (COUNT(*) per table + one index-driven query)
use std::collections::BTreeMap;
use std::panic::{catch_unwind, AssertUnwindSafe};
use std::sync::Mutex;

use vharness::*;
use vibesql_ast as ast;
use vibesql_storage::IndexData;
use vibesql_types::SqlValue;

static LAST_PANIC: Mutex<String> = Mutex::new(String::new());

fn install_hook() {
    std::panic::set_hook(Box::new(|i| {
        let loc = i.location().map(|l| format!("{}:{}", l.file(), l.line())).unwrap_or_default();
        if let Ok(mut g) = LAST_PANIC.lock() {
            *g = loc;
        }
    }));
}
fn last_panic() -> String {
    LAST_PANIC.lock().map(|g| g.clone()).unwrap_or_default()
}

const MAXI: i64 = i64::MAX;
const MINI: i64 = i64::MIN;

#[derive(Clone, Debug, PartialEq)]
enum V {
    Null,
    I(i64),
    B(bool),
    S(String),
}

fn int_sql(i: i64) -> String {
    if i >= 0 {
        i.to_string()
    } else if i == MINI {
        "(0-9223372036854775807-1)".into()
    } else {
        format!("(0-{})", -(i as i128))
    }
}

impl V {
    fn proto(&self) -> String {
        match self {
            V::Null => "N".into(),
            V::I(i) => format!("I{}", i),
            V::B(b) => format!("B{}", if *b { 1 } else { 0 }),
            V::S(s) => format!("S{}", sx::hex_str(s)),
        }
    }
    fn sql(&self) -> String {
        match self {
            V::Null => "NULL".into(),
            V::I(i) => int_sql(*i),
            V::B(b) => (if *b { "TRUE" } else { "FALSE" }).into(),
            V::S(s) => format!("'{}'", s.replace('\'', "''")),
        }
    }
}

#[derive(Clone, Copy, Debug, PartialEq)]
enum Op {
    Add,
    Sub,
    Mul,
    Div,
    Mod,
}
impl Op {
    fn name(self) -> &'static str {
        match self {
            Op::Add => "add",
            Op::Sub => "sub",
            Op::Mul => "mul",
            Op::Div => "div",
            Op::Mod => "mod",
        }
    }
}

#[derive(Clone, Debug)]
enum X {
    Lit(V),
    Col(usize),
    Bin(Op, Box<X>, Box<X>),
    Neg(Box<X>),
    Abs(Box<X>),
}

impl X {
    fn sql(&self) -> String {
        match self {
            X::Lit(v) => v.sql(),
            X::Col(i) => format!("c{}", i),
            X::Bin(op, a, b) => match op {
                Op::Add => format!("({} + {})", a.sql(), b.sql()),
                Op::Sub => format!("({} - {})", a.sql(), b.sql()),
                Op::Mul => format!("({} * {})", a.sql(), b.sql()),
                Op::Div => format!("({} DIV {})", a.sql(), b.sql()),
                Op::Mod => format!("MOD({}, {})", a.sql(), b.sql()),
            },
            X::Neg(a) => format!("(- {})", a.sql()),
            X::Abs(a) => format!("ABS({})", a.sql()),
        }
    }
    fn sx(&self, row: &[V]) -> String {
        match self {
            X::Lit(v) => format!("(lit {})", v.proto()),
            X::Col(i) => format!("(lit {})", row[*i].proto()),
            X::Bin(op, a, b) => format!("({} {} {})", op.name(), a.sx(row), b.sx(row)),
            X::Neg(a) => format!("(neg {})", a.sx(row)),
            X::Abs(a) => format!("(abs {})", a.sx(row)),
        }
    }
    fn depth(&self) -> usize {
        match self {
            X::Lit(_) | X::Col(_) => 0,
            X::Bin(_, a, b) => 1 + a.depth().max(b.depth()),
            X::Neg(a) | X::Abs(a) => 1 + a.depth(),
        }
    }
    fn count_ops(&self, rep: &mut Report) {
        match self {
            X::Lit(_) | X::Col(_) => {}
            X::Bin(op, a, b) => {
                rep.count(&format!("A_op_{}", op.name()));
                a.count_ops(rep);
                b.count_ops(rep);
            }
            X::Neg(a) => {
                rep.count("A_op_neg");
                a.count_ops(rep)
            }
            X::Abs(a) => {
                rep.count("A_op_abs");
                a.count_ops(rep)
            }
        }
    }
}

/// independent exact evaluation (i128), same typing rules and evaluation order as the engine
#[derive(Clone, Debug, PartialEq)]
enum R {
    Val(V), // Null | I | (B | S only for bare literals)
    ErrType,
    ErrDiv,
    Overflow,
}

fn in64(r: i128) -> bool {
    r >= MINI as i128 && r <= MAXI as i128
}

fn exact(x: &X, row: &[V]) -> R {
    let num = |v: &V| -> Option<i128> {
        match v {
            V::I(i) => Some(*i as i128),
            V::B(b) => Some(*b as i128),
            _ => None,
        }
    };
    match x {
        X::Lit(v) => R::Val(v.clone()),
        X::Col(i) => R::Val(row[*i].clone()),
        X::Bin(op, a, b) => {
            let l = match exact(a, row) {
                R::Val(v) => v,
                e => return e,
            };
            let r = match exact(b, row) {
                R::Val(v) => v,
                e => return e,
            };
            if l == V::Null || r == V::Null {
                return R::Val(V::Null);
            }
            let (p, q) = match (num(&l), num(&r)) {
                (Some(p), Some(q)) => (p, q),
                _ => return R::ErrType,
            };
            let res = match op {
                Op::Add => p + q,
                Op::Sub => p - q,
                Op::Mul => p * q,
                Op::Div => {
                    if q == 0 {
                        return R::ErrDiv;
                    }
                    p / q
                }
                Op::Mod => {
                    if q == 0 {
                        return R::Val(V::Null);
                    }
                    p % q
                }
            };
            if in64(res) {
                R::Val(V::I(res as i64))
            } else {
                R::Overflow
            }
        }
        X::Neg(a) | X::Abs(a) => {
            let v = match exact(a, row) {
                R::Val(v) => v,
                e => return e,
            };
            match v {
                V::Null => R::Val(V::Null),
                V::I(i) => {
                    let res = if matches!(x, X::Neg(_)) { -(i as i128) } else { (i as i128).abs() };
                    if in64(res) {
                        R::Val(V::I(res as i64))
                    } else {
                        R::Overflow
                    }
                }
                _ => R::ErrType,
            }
        }
    }
}

fn of_sql(v: &SqlValue) -> Option<V> {
    Some(match v {
        SqlValue::Null => V::Null,
        SqlValue::Integer(i) | SqlValue::Bigint(i) => V::I(*i),
        SqlValue::Smallint(i) => V::I(*i as i64),
        SqlValue::Boolean(b) => V::B(*b),
        SqlValue::Varchar(s) | SqlValue::Character(s) => V::S(s.clone()),
        _ => return None,
    })
}

/// engine outcome → "ok <V>" | "err overflow|divzero|type" | "panic ..." | "other ..."
fn canon_out(o: &Out) -> String {
    match o {
        Out::Rows(r) if r.len() == 1 && r[0].len() == 1 => match of_sql(&r[0][0]) {
            Some(v) => format!("(ok {})", v.proto()),
            None => format!("other {}", canon::val(&r[0][0])),
        },
        Out::Rows(r) => format!("other rows={}", r.len()),
        Out::Count(n) => format!("other count={}", n),
        Out::Err { class, msg } => {
            if class == "DivisionByZero" {
                "(err divzero)".into()
            } else if msg.contains("out of range") {
                "(err overflow)".into()
            } else {
                "(err type)".into()
            }
        }
        Out::Panic(m) => format!("panic {} @ {}", m, last_panic()),
    }
}

const POOL: [i64; 21] = [
    0,
    1,
    -1,
    2,
    -2,
    1 << 31,
    -(1 << 31),
    (1 << 31) - 1,
    1 << 32,
    1 << 53,
    -(1 << 53),
    (1 << 53) + 1,
    3037000499,
    3037000500,
    MAXI,
    MAXI - 1,
    MINI,
    MINI + 1,
    4611686018427387904,
    -4611686018427387904,
    10,
];

fn gen_int(r: &mut Rng) -> i64 {
    match r.below(10) {
        0..=4 => *r.pick(&POOL),
        5 | 6 => r.range(-100, 100),
        7 => (r.next() as i64) >> r.below(40),
        8 => {
            let p = *r.pick(&POOL);
            p.saturating_add(r.range(-2, 2))
        }
        _ => r.next() as i64,
    }
}

fn gen_val(r: &mut Rng) -> V {
    match r.below(20) {
        0 => V::Null,
        1 => V::B(r.chance(1, 2)),
        2 => V::S((*r.pick(&["x", "5", "", "abc"])).to_string()),
        _ => V::I(gen_int(r)),
    }
}

fn gen_x(r: &mut Rng, depth: u32, ncols: usize) -> X {
    if depth == 0 || r.chance(1, 6) {
        if ncols > 0 && r.chance(2, 3) {
            return X::Col(r.below(ncols as u64) as usize);
        }
        return X::Lit(gen_val(r));
    }
    match r.below(12) {
        0 => X::Neg(Box::new(gen_x(r, depth - 1, ncols))),
        1 => X::Abs(Box::new(gen_x(r, depth - 1, ncols))),
        k => {
            let op = match k {
                2..=4 => Op::Add,
                5 | 6 => Op::Sub,
                7..=9 => Op::Mul,
                10 => Op::Div,
                _ => Op::Mod,
            };
            X::Bin(op, Box::new(gen_x(r, depth - 1, ncols)), Box::new(gen_x(r, depth - 1, ncols)))
        }
    }
}

/// rewrite `MOD(a, b)` function calls into the `%` operator node (the lexer does not accept `%`,
/// so the operator the model mirrors is reachable only through the AST)
fn mod_to_operator(e: &mut ast::Expression) {
    use ast::Expression as E;
    match e {
        E::BinaryOp { left, right, .. } => {
            mod_to_operator(left);
            mod_to_operator(right);
        }
        E::UnaryOp { expr, .. } => mod_to_operator(expr),
        E::Function { name, args, .. } => {
            for a in args.iter_mut() {
                mod_to_operator(a);
            }
            if name.eq_ignore_ascii_case("MOD") && args.len() == 2 {
                let r = args.pop().unwrap();
                let l = args.pop().unwrap();
                *e = E::BinaryOp { op: ast::BinaryOperator::Modulo, left: Box::new(l), right: Box::new(r) };
            }
        }
        _ => {}
    }
}

fn run_select_modop(db: &mut Db, sql: &str) -> Out {
    match Db::parse(sql) {
        Ok(mut st) => {
            if let ast::Statement::Select(ref mut s) = st {
                for it in s.select_list.iter_mut() {
                    if let ast::SelectItem::Expression { expr, .. } = it {
                        mod_to_operator(expr);
                    }
                }
            }
            db.log.push(format!("{}  -- MOD(a,b) rewritten to the % operator node", sql));
            db.exec_stmt(&st)
        }
        Err(o) => o,
    }
}

// ------------------------------------------------------------------------------------------------
// stream A
// ------------------------------------------------------------------------------------------------
fn stream_a_case(x: &X, row: &[V], model: &mut model::Model, rep: &mut Report, tag: &str) {
    let mut db = Db::new();
    let mut setup = String::new();
    let sql = if row.is_empty() {
        format!("SELECT {}", x.sql())
    } else {
        let cols: Vec<String> = (0..row.len())
            .map(|i| {
                format!(
                    "c{} {}",
                    i,
                    match row[i] {
                        V::S(_) => "VARCHAR(10)",
                        V::B(_) => "BOOLEAN",
                        // the coerced (non-fast-path) arithmetic is reached through operands of
                        // another exact type: BIGINT columns hold the same 64-bit values
                        _ => {
                            if tag.contains("bigint") {
                                "BIGINT"
                            } else {
                                "INTEGER"
                            }
                        }
                    }
                )
            })
            .collect();
        let c = format!("CREATE TABLE t1 ({})", cols.join(", "));
        let ins = format!("INSERT INTO t1 SELECT {}", row.iter().map(|v| v.sql()).collect::<Vec<_>>().join(", "));
        setup = format!("{};\n{};\n", c, ins);
        db.must(&c);
        db.must(&ins);
        // the stored row must be what the case says (otherwise the case is about something else)
        let back = db.scan("t1").unwrap_or_default();
        let ok = back.len() == 1 && back[0].iter().zip(row.iter()).all(|(a, b)| of_sql(a).as_ref() == Some(b));
        if !ok {
            rep.count("A_setup_row_not_stored_as_given");
            return;
        }
        format!("SELECT {} FROM t1", x.sql())
    };
    let req = format!("arith {}", x.sx(row));
    let m = model.ask(&req);
    let out = run_select_modop(&mut db, &sql);
    let got = canon_out(&out);
    let ex = exact(x, row);
    let id = format!("{} {}", tag, req);
    let nontrivial = x.depth() >= 1;
    rep.case(&id, nontrivial);
    rep.count(&format!("A_depth_{}", x.depth()));
    rep.count(&format!("A_kind_{}", tag));
    x.count_ops(rep);
    rep.count(&format!(
        "A_outcome_{}",
        match &ex {
            R::Val(V::Null) => "null",
            R::Val(_) => "value",
            R::ErrType => "type_error",
            R::ErrDiv => "div_by_zero",
            R::Overflow => "overflow",
        }
    ));
    let replay = format!("{}{};\n-- model request: {}\n-- engine: {}\n-- model:  {}\n-- exact (i128): {:?}", setup, sql, req, got, m, ex);
    // direct oracle
    if out.is_panic() {
        rep.fail(FailKind::Oracle, None, &format!("panic while evaluating an integer expression: {}", got), &replay);
        return;
    }
    if let Out::Rows(r) = &out {
        if r.len() == 1 && r[0].len() == 1 {
            let v = of_sql(&r[0][0]);
            let bad = match (&ex, &v) {
                (R::Val(e), Some(g)) => e != g,
                (R::Val(V::I(_)), None) => true,
                (R::Overflow, Some(V::I(_))) => true, // a number although an intermediate result does not fit
                (R::Overflow, None) => true,
                _ => false,
            };
            if bad {
                rep.fail(FailKind::Oracle, None, "integer expression returned a value that is not the exact integer (no error reported)", &replay);
                return;
            }
        }
    }
    // correspondence
    rep.traces_validated += 1;
    if got != m {
        rep.fail(FailKind::ModelDiff, None, "integer expression: engine outcome differs from Arith.eval", &replay);
    }
}

fn stream_a(args: &Args, rng: &mut Rng, model: &mut model::Model, rep: &mut Report) {
    // deterministic: every operator on every ordered pair of a boundary pool (literals)
    let small: Vec<i64> = vec![0, 1, -1, 2, -2, 1 << 31, -(1 << 31), 1 << 53, -(1 << 53), MINI, MAXI, MAXI - 1, MINI + 1, 3037000500];
    let ops = [Op::Add, Op::Sub, Op::Mul, Op::Div, Op::Mod];
    let stride = if args.quick() { 3 } else { 1 };
    let mut k = 0usize;
    for op in ops {
        for a in &small {
            for b in &small {
                k += 1;
                if k % stride != (args.seed as usize) % stride {
                    continue;
                }
                let x = X::Bin(op, Box::new(X::Lit(V::I(*a))), Box::new(X::Lit(V::I(*b))));
                stream_a_case(&x, &[], model, rep, "pairs");
            }
        }
    }
    // the same boundary pairs with the left operand in a BIGINT column (coerced path, not the
    // Integer×Integer fast path) and the right operand a literal, and both in BIGINT columns
    let mut k2 = 0usize;
    for op in ops {
        for a in &small {
            for b in &small {
                k2 += 1;
                if k2 % stride != (args.seed as usize) % stride {
                    continue;
                }
                let x = X::Bin(op, Box::new(X::Col(0)), Box::new(X::Lit(V::I(*b))));
                stream_a_case(&x, &[V::I(*a)], model, rep, "pairs_bigint_col_lit");
                if k2 % (2 * stride) == (args.seed as usize) % stride {
                    let y = X::Bin(op, Box::new(X::Col(0)), Box::new(X::Col(1)));
                    stream_a_case(&y, &[V::I(*a), V::I(*b)], model, rep, "pairs_bigint_col_col");
                }
            }
        }
    }
    // the panicking / wrapping corners explicitly, whatever the stride
    for op in ops {
        for (a, b) in [(MINI, -1i64), (MINI, 1), (MAXI, -1), (MINI, MINI), (MAXI, MAXI), (MINI, 0)] {
            let x = X::Bin(op, Box::new(X::Col(0)), Box::new(X::Lit(V::I(b))));
            stream_a_case(&x, &[V::I(a)], model, rep, "corner_bigint_col_lit");
            let y = X::Bin(op, Box::new(X::Lit(V::I(a))), Box::new(X::Col(0)));
            stream_a_case(&y, &[V::I(b)], model, rep, "corner_lit_bigint_col");
            let z = X::Bin(op, Box::new(X::Lit(V::I(a))), Box::new(X::Lit(V::I(b))));
            stream_a_case(&z, &[], model, rep, "corner_literals");
        }
    }
    for a in &small {
        stream_a_case(&X::Neg(Box::new(X::Col(0))), &[V::I(*a)], model, rep, "unary_bigint_col");
        stream_a_case(&X::Abs(Box::new(X::Col(0))), &[V::I(*a)], model, rep, "unary_bigint_col");
        stream_a_case(&X::Neg(Box::new(X::Lit(V::I(*a)))), &[], model, rep, "unary");
        stream_a_case(&X::Abs(Box::new(X::Lit(V::I(*a)))), &[], model, rep, "unary");
        stream_a_case(&X::Neg(Box::new(X::Col(0))), &[V::I(*a)], model, rep, "unary_col");
    }
    // coercion table: every pair of value kinds under +
    let kinds = [V::Null, V::I(7), V::B(true), V::B(false), V::S("x".into()), V::I(MAXI)];
    for a in &kinds {
        for b in &kinds {
            for op in ops {
                let x = X::Bin(op, Box::new(X::Lit(a.clone())), Box::new(X::Lit(b.clone())));
                stream_a_case(&x, &[], model, rep, "coercion");
            }
        }
    }
    // generated
    let n = args.n(900, 40000);
    for i in 0..n {
        let mut r = rng.fork();
        let depth = 1 + r.below(4) as u32;
        if i % 2 == 0 {
            let x = gen_x(&mut r, depth, 0);
            stream_a_case(&x, &[], model, rep, "literal");
        } else {
            let ncols = 1 + r.below(3) as usize;
            let row: Vec<V> = (0..ncols).map(|_| if r.chance(1, 12) { V::Null } else { V::I(gen_int(&mut r)) }).collect();
            let x = gen_x(&mut r, depth, ncols);
            if i < 6 {
                rep.sample(serde_json::json!({"stream": "A", "sql": format!("SELECT {} FROM t1", x.sql()), "row": row.iter().map(|v| v.proto()).collect::<Vec<_>>(), "model_request": format!("arith {}", x.sx(&row))}));
            }
            stream_a_case(&x, &row, model, rep, if i % 4 == 1 { "column" } else { "column_bigint" });
        }
    }
}

// ------------------------------------------------------------------------------------------------
// stream B: SUM
// ------------------------------------------------------------------------------------------------
fn sum_sig(vals: &[V]) -> bool {
    // necessary for any partial sum (in any order) to leave the i64 range
    let pos: i128 = vals.iter().filter_map(|v| if let V::I(i) = v { Some((*i as i128).max(0)) } else { None }).sum();
    let neg: i128 = vals.iter().filter_map(|v| if let V::I(i) = v { Some((*i as i128).min(0)) } else { None }).sum();
    !in64(pos) || !in64(neg)
}

fn stream_b_case(groups: &[(i64, Vec<V>)], model: &mut model::Model, rep: &mut Report) {
    let mut db = Db::new();
    db.must("CREATE TABLE s (g INTEGER, a INTEGER)");
    for (g, vs) in groups {
        for v in vs {
            db.must(&format!("INSERT INTO s SELECT {}, {}", int_sql(*g), v.sql()));
        }
    }
    let script_text = db_script(&db);
    let script = || script_text.clone();
    let nrows: usize = groups.iter().map(|g| g.1.len()).sum();
    rep.count(&format!("B_rows_{}", if nrows <= 4 { "0-4" } else if nrows <= 12 { "5-12" } else { ">12" }));
    // grouped: row-at-a-time accumulator
    let out = db.exec("SELECT g, SUM(a) FROM s GROUP BY g");
    let id = format!("B {:?}", groups);
    let any_overflow = groups.iter().any(|g| sum_sig(&g.1));
    rep.case(&id, nrows >= 2);
    match &out {
        Out::Rows(rows) => {
            let mut got: BTreeMap<i64, String> = BTreeMap::new();
            for r in rows {
                if let (Some(V::I(g)), v) = (of_sql(&r[0]), &r[1]) {
                    got.insert(g, of_sql(v).map(|x| x.proto()).unwrap_or_else(|| format!("other:{}", canon::val(v))));
                }
            }
            for (g, vs) in groups {
                if vs.is_empty() {
                    continue;
                }
                let m = model.ask(&format!("sum {}", vs.iter().map(|v| v.proto()).collect::<Vec<_>>().join(" ")));
                let e = got.get(g).cloned().unwrap_or_else(|| "missing".into());
                rep.traces_validated += 1;
                let exact_sum: i128 = vs.iter().filter_map(|v| if let V::I(i) = v { Some(*i as i128) } else { None }).sum();
                let n_int = vs.iter().filter(|v| matches!(v, V::I(_))).count();
                // oracle: an integer result must be the exact sum
                if let Some(num) = e.strip_prefix('I') {
                    if num.parse::<i128>().ok() != Some(exact_sum) || n_int == 0 {
                        rep.fail(FailKind::Oracle, None, "SUM ... GROUP BY returned an integer that is not the exact sum", &format!("{}SELECT g, SUM(a) FROM s GROUP BY g;\n-- group {}: engine {} exact {}", script(), g, e, exact_sum));
                        continue;
                    }
                } else if e != "N" {
                    rep.fail(FailKind::Oracle, None, "SUM ... GROUP BY over integers returned neither an integer nor NULL", &format!("{}SELECT g, SUM(a) FROM s GROUP BY g;\n-- group {}: engine {} exact {}", script(), g, e, exact_sum));
                    continue;
                }
                if format!("(ok {})", e) != m {
                    rep.fail(FailKind::ModelDiff, None, "SUM ... GROUP BY: engine differs from Arith.sumAgg", &format!("{}SELECT g, SUM(a) FROM s GROUP BY g;\n-- group {}: engine {} model {}", script(), g, e, m));
                }
                rep.count(if e == "N" && n_int > 0 { "B_group_sum_null_after_overflow" } else { "B_group_sum_value" });
            }
        }
        Out::Panic(p) => rep.fail(FailKind::Oracle, None, &format!("panic in SUM ... GROUP BY: {} @ {}", p, last_panic()), &format!("{}SELECT g, SUM(a) FROM s GROUP BY g;", script())),
        other => {
            // an error is acceptable only when some group overflows
            if !any_overflow {
                rep.fail(FailKind::Oracle, None, "SUM ... GROUP BY failed although every partial sum fits", &format!("{}SELECT g, SUM(a) FROM s GROUP BY g;\n-- {}", script(), other.brief()));
            }
        }
    }
    // further row-path forms: the integer answer must be the exact value, never a partial sum
    {
        let exact_of = |vs: &Vec<V>, distinct: bool| -> (i128, usize) {
            let mut seen = std::collections::BTreeSet::new();
            let mut sum = 0i128;
            let mut n = 0usize;
            for v in vs {
                if let V::I(i) = v {
                    if !distinct || seen.insert(*i) {
                        sum += *i as i128;
                        n += 1;
                    }
                }
            }
            (sum, n)
        };
        let forms: [(&str, bool, bool); 4] = [
            ("SELECT g, SUM(DISTINCT a) FROM s GROUP BY g", true, false),
            ("SELECT g, SUM(a) FROM s GROUP BY g HAVING COUNT(*) >= 0", false, false),
            ("SELECT g, SUM(a) FROM s WHERE a IS NOT NULL GROUP BY g", false, false),
            ("SELECT g, AVG(a) FROM s GROUP BY g", false, true),
        ];
        for (q, distinct, is_avg) in forms {
            let o = db.exec(q);
            rep.count("B_extra_grouped_forms");
            match &o {
                Out::Panic(p) => rep.fail(FailKind::Oracle, None, &format!("panic in a grouped aggregate: {} @ {}", p, last_panic()), &format!("{}{};", script(), q)),
                Out::Rows(rows) => {
                    for r in rows {
                        let g = match of_sql(&r[0]) {
                            Some(V::I(g)) => g,
                            _ => continue,
                        };
                        let vs = match groups.iter().find(|x| x.0 == g) {
                            Some(x) => &x.1,
                            None => continue,
                        };
                        let (sum, n) = exact_of(vs, distinct);
                        if n == 0 {
                            continue;
                        }
                        let shown = canon::val(&r[1]);
                        if shown == "N" {
                            continue; // NULL after an overflow, as documented
                        }
                        let ok = if is_avg {
                            // AVG is a float: compare against the exact quotient with a relative tolerance
                            let want = sum as f64 / n as f64;
                            let have: Option<f64> = match &r[1] {
                                SqlValue::Double(f) | SqlValue::Numeric(f) => Some(*f),
                                SqlValue::Float(f) | SqlValue::Real(f) => Some(*f as f64),
                                SqlValue::Integer(i) | SqlValue::Bigint(i) => Some(*i as f64),
                                _ => None,
                            };
                            match have {
                                Some(h) => (h - want).abs() <= 1e-6 * want.abs().max(1.0),
                                None => false,
                            }
                        } else {
                            shown.strip_prefix('I').and_then(|x| x.parse::<i128>().ok()) == Some(sum)
                        };
                        if !ok {
                            rep.fail(
                                FailKind::Oracle,
                                None,
                                "grouped SUM/AVG returned a number that is not the exact value (a partial or wrapped sum)",
                                &format!("{}{};\n-- group {}: engine {} exact sum {} over {} values", script(), q, g, shown, sum, n),
                            );
                        }
                    }
                }
                _ => {}
            }
        }
    }
    // ungrouped (columnar path): direct oracle only
    let all: Vec<V> = groups.iter().flat_map(|g| g.1.iter().cloned()).collect();
    let exact_sum: i128 = all.iter().filter_map(|v| if let V::I(i) = v { Some(*i as i128) } else { None }).sum();
    let n_int = all.iter().filter(|v| matches!(v, V::I(_))).count();
    for q in ["SELECT SUM(a) FROM s", "SELECT AVG(a) FROM s", "SELECT SUM(a) FROM s WHERE g >= 0", "SELECT SUM(DISTINCT a) FROM s", "SELECT SUM(a) FROM s HAVING COUNT(*) >= 0", "SELECT SUM(a + 0) FROM s"] {
        let o = db.exec(q);
        // (the former finding C24/columnar-avg-overflow is repaired by 5283a9b3: nothing is classified)
        let sig: Option<&str> = None;
        let _ = sum_sig(&all);
        match &o {
            Out::Panic(p) => {
                rep.count("B_ungrouped_panic");
                rep.fail(FailKind::Oracle, sig, &format!("panic in an aggregate without GROUP BY: {} @ {}", p, last_panic()), &format!("{}{};", script(), q));
            }
            Out::Rows(r) if (q == "SELECT SUM(a) FROM s" || q == "SELECT SUM(a) FROM s WHERE g >= 0" || q.contains("HAVING")) && r.len() == 1 && n_int > 0 => {
                // an exact-integer answer must be the exact sum (a double answer is compared where doubles are exact)
                let shown = canon::val(&r[0][0]);
                if let Some(num) = shown.strip_prefix('I') {
                    let is_int = matches!(&r[0][0], SqlValue::Integer(_) | SqlValue::Bigint(_));
                    if num.parse::<i128>().ok() != Some(exact_sum) && (is_int || exact_sum.abs() < (1i128 << 53)) {
                        rep.fail(FailKind::Oracle, sig, "SUM without GROUP BY returned a number that is not the exact sum", &format!("{}{};\n-- engine {} exact {}", script(), q, shown, exact_sum));
                    }
                }
                rep.count("B_ungrouped_ok");
            }
            _ => rep.count("B_ungrouped_other"),
        }
    }
}

fn db_script(db: &Db) -> String {
    let mut s = String::new();
    for l in &db.log {
        s.push_str(l);
        s.push_str(";\n");
    }
    s
}

fn stream_b(args: &Args, rng: &mut Rng, model: &mut model::Model, rep: &mut Report) {
    // deterministic probes
    stream_b_case(&[(1, vec![V::I(MAXI), V::I(1)]), (2, vec![V::I(5), V::Null, V::I(-7)])], model, rep);
    stream_b_case(&[(1, vec![V::I(MAXI), V::I(1), V::I(-5)]), (2, vec![V::Null])], model, rep);
    stream_b_case(&[(1, vec![V::I(MINI), V::I(-1)]), (2, vec![V::I(MAXI), V::I(MINI), V::I(MAXI)])], model, rep);
    stream_b_case(&[(1, vec![V::I(MAXI), V::I(MAXI)])], model, rep);
    // the running total leaves the range strictly before the last row: NULL (sticky), never a restarted partial sum
    stream_b_case(&[(1, vec![V::I(MAXI), V::I(1), V::I(5), V::I(6), V::I(7)])], model, rep);
    stream_b_case(&[(1, vec![V::I(MINI), V::I(-1), V::I(-100)]), (2, vec![V::I(MINI), V::I(-1), V::I(-100), V::I(-200)])], model, rep);
    stream_b_case(&[(1, vec![V::I(5), V::I(MAXI), V::I(MAXI), V::I(3), V::Null, V::I(4)]), (2, vec![V::I(1), V::I(2)])], model, rep);
    stream_b_case(&[(0, vec![V::I(MAXI - 1), V::I(1), V::I(1), V::I(10), V::I(20)])], model, rep);
    stream_b_case(&[(1, vec![V::I(1 << 53), V::I(1), V::I(1)])], model, rep);
    let n = args.n(60, 2500);
    for _ in 0..n {
        let mut r = rng.fork();
        let ng = 1 + r.below(3);
        let mut groups = vec![];
        for g in 0..ng {
            let k = r.below(7);
            let big = r.chance(1, 3);
            let vs: Vec<V> = (0..k)
                .map(|_| {
                    if r.chance(1, 8) {
                        V::Null
                    } else if big {
                        V::I(gen_int(&mut r))
                    } else {
                        V::I(r.range(-1000, 1000))
                    }
                })
                .collect();
            groups.push((g as i64, vs));
        }
        stream_b_case(&groups, model, rep);
    }
}

// ------------------------------------------------------------------------------------------------
// stream C: SUBSTRING
// ------------------------------------------------------------------------------------------------
fn is_char_run(s: &str, sub: &str) -> bool {
    let a: Vec<char> = s.chars().collect();
    let b: Vec<char> = sub.chars().collect();
    if b.is_empty() {
        return true;
    }
    a.windows(b.len()).any(|w| w == &b[..])
}

fn stream_c(args: &Args, rng: &mut Rng, model: &mut model::Model, rep: &mut Report) {
    let strings = ["", "a", "hello", "héllo", "日本語テキスト", "a😀b😀c", "ééé", "x'y", "Ωmega and more text"];
    let nums: [i64; 16] = [0, 1, 2, 3, 4, 5, 6, 7, -1, -5, 100, MAXI, MAXI - 1, MINI, MINI + 1, 1 << 32];
    let mut cases: Vec<(String, i64, Option<i64>)> = vec![];
    for s in strings {
        for st in [0i64, 1, 2, 3, 6, -1, MAXI, MINI] {
            cases.push((s.to_string(), st, None));
            for ln in [0i64, 1, 2, -1, MAXI, MINI] {
                cases.push((s.to_string(), st, Some(ln)));
            }
        }
    }
    let n = args.n(300, 20000);
    for _ in 0..n {
        let s = rng.pick(&strings).to_string();
        let st = if rng.chance(2, 3) { rng.range(-2, 12) } else { *rng.pick(&nums) };
        let ln = if rng.chance(1, 3) { None } else if rng.chance(2, 3) { Some(rng.range(-1, 10)) } else { Some(*rng.pick(&nums)) };
        cases.push((s, st, ln));
    }
    let stride = if args.quick() { 2 } else { 1 };
    let mut db = Db::new();
    db.keep_log = false;
    for (i, (s, st, ln)) in cases.iter().enumerate() {
        if i < 504 && i % stride != 0 {
            continue;
        }
        let lit = format!("'{}'", s.replace('\'', "''"));
        let sql = match ln {
            Some(l) => format!("SELECT SUBSTRING({}, {}, {})", lit, int_sql(*st), int_sql(*l)),
            None => format!("SELECT SUBSTRING({}, {})", lit, int_sql(*st)),
        };
        let req = format!("substr {} {} {}", sx::hex_str(s), st, ln.map(|l| l.to_string()).unwrap_or_else(|| "-".into()));
        let m = model.ask(&req);
        let out = db.exec(&sql);
        let got = match &out {
            Out::Rows(r) if r.len() == 1 && r[0].len() == 1 => match &r[0][0] {
                SqlValue::Varchar(x) | SqlValue::Character(x) => format!("(ok {})", sx::hex_str(x)),
                o => format!("other {}", canon::val(o)),
            },
            o => o.brief(),
        };
        let multibyte = s.len() != s.chars().count();
        rep.case(&req, !s.is_empty());
        rep.count(if multibyte { "C_multibyte" } else { "C_ascii" });
        rep.count(if ln.is_some() { "C_with_length" } else { "C_no_length" });
        if i == 40 {
            rep.sample(serde_json::json!({"stream": "C", "sql": sql, "model_request": req, "engine": got}));
        }
        let replay = format!("{};\n-- model request: {}\n-- engine: {}\n-- model:  {}", sql, req, got, m);
        if out.is_panic() {
            rep.fail(FailKind::Oracle, None, &format!("panic in SUBSTRING: {} @ {}", got, last_panic()), &replay);
            continue;
        }
        if let Out::Rows(r) = &out {
            if let Some(SqlValue::Varchar(x)) = r.first().and_then(|r| r.first()) {
                if !is_char_run(s, x) {
                    rep.fail(FailKind::Oracle, None, "SUBSTRING returned text that is not a run of characters of its argument", &replay);
                    continue;
                }
            }
        }
        rep.traces_validated += 1;
        if got != m {
            rep.fail(FailKind::ModelDiff, None, "SUBSTRING: engine differs from Arith.substring", &replay);
        }
    }
    // LOCATE start arithmetic: direct oracle only
    for q in [
        "SELECT LOCATE('l', 'héllo', 3)",
        "SELECT LOCATE('l', 'héllo', (0-9223372036854775807-1))",
        "SELECT LOCATE('l', 'héllo', 9223372036854775807)",
        "SELECT LOCATE('😀', 'a😀b😀c', 3)",
        "SELECT LEFT('héllo', 9223372036854775807), RIGHT('héllo', 9223372036854775807)",
        "SELECT LEFT('héllo', (0-9223372036854775807-1)), RIGHT('héllo', 2)",
        "SELECT MOD((0-9223372036854775807-1), (0-1))",
        "SELECT ABS((0-9223372036854775807-1))",
        "SELECT CAST(40000 AS SMALLINT)",
        "SELECT CAST((0-40000) AS SMALLINT)",
        "SELECT - CAST((0-32768) AS SMALLINT)",
        "SELECT CAST(9223372036854775807 AS BIGINT) + CAST(1 AS BIGINT)",
        "SELECT CAST(9223372036854775807 AS INTEGER) * CAST(2 AS SMALLINT)",
        "SELECT TRUE + 9223372036854775807",
    ] {
        let out = db.exec(q);
        rep.case(q, true);
        rep.count("C_function_probes");
        if out.is_panic() {
            rep.fail(FailKind::Oracle, None, &format!("panic in a scalar function probe: {} @ {}", out.brief(), last_panic()), q);
        }
        if q.contains("SMALLINT)") && q.starts_with("SELECT CAST(") && !q.contains('+') && !q.contains('*') {
            // narrowing must not wrap
            if let Out::Rows(r) = &out {
                let v = canon::val(&r[0][0]);
                if v != "I40000" && v != "I-40000" {
                    rep.fail(FailKind::Oracle, None, "CAST to SMALLINT returned a wrapped number", &format!("{};\n-- engine {}", q, v));
                }
            }
        }
        if q.contains("BIGINT) +") || q.contains("SMALLINT)") && q.contains('*') || q.starts_with("SELECT TRUE +") || q.starts_with("SELECT ABS") || q.starts_with("SELECT - CAST") {
            if out.is_ok() {
                rep.fail(FailKind::Oracle, None, "an out-of-range integer result was returned as a value", &format!("{};\n-- engine {}", q, out.brief()));
            }
        }
    }
}

// ------------------------------------------------------------------------------------------------
// stream D: LIMIT / OFFSET
// ------------------------------------------------------------------------------------------------
fn stream_d(args: &Args, rng: &mut Rng, model: &mut model::Model, rep: &mut Report) {
    let big: [u64; 8] = [0, 1, 2, 5, 1 << 32, MAXI as u64, (MAXI as u64) + 1, u64::MAX];
    for n in [0usize, 1, 5, 12] {
        let mut db = Db::new();
        db.must("CREATE TABLE l (a INTEGER)");
        for i in 0..n {
            db.must(&format!("INSERT INTO l VALUES ({})", i));
        }
        db.keep_log = false;
        let mut cases: Vec<(Option<u64>, Option<u64>)> = vec![];
        for l in big.iter().map(|x| Some(*x)).chain([None]) {
            for o in big.iter().map(|x| Some(*x)).chain([None]) {
                cases.push((l, o));
            }
        }
        for _ in 0..args.n(20, 400) {
            let l = if rng.chance(1, 5) { None } else { Some(rng.below(15)) };
            let o = if rng.chance(1, 5) { None } else { Some(rng.below(15)) };
            cases.push((l, o));
        }
        for (l, o) in cases {
            if l.is_none() && o.is_none() {
                continue;
            }
            let mut sql = "SELECT a FROM l ORDER BY a".to_string();
            if let Some(l) = l {
                sql.push_str(&format!(" LIMIT {}", l));
            }
            if let Some(o) = o {
                sql.push_str(&format!(" OFFSET {}", o));
            }
            let f = |x: Option<u64>| x.map(|v| v.to_string()).unwrap_or_else(|| "-".into());
            let req = format!("limoff {} {} {}", n, f(l), f(o));
            let m = model.ask(&req);
            let out = db.exec(&sql);
            let got = match &out {
                Out::Rows(r) => format!("(rows{})", r.iter().map(|x| format!(" {}", canon::val(&x[0]).trim_start_matches('I'))).collect::<String>()),
                o => o.brief(),
            };
            rep.case(&req, n > 0);
            rep.count("D_limit_offset");
            let replay = format!("-- table l(a) holds 0..{}\n{};\n-- engine: {}\n-- model: {}", n, sql, got, m);
            if out.is_panic() {
                rep.fail(FailKind::Oracle, None, &format!("panic in LIMIT/OFFSET: {} @ {}", got, last_panic()), &replay);
                continue;
            }
            if let Out::Rows(r) = &out {
                let start = o.unwrap_or(0).min(n as u64) as usize;
                let take = l.unwrap_or(u64::MAX).min((n - start) as u64) as usize;
                let want: Vec<i64> = (start..start + take).map(|i| i as i64).collect();
                let have: Vec<i64> = r.iter().filter_map(|x| if let Some(V::I(i)) = of_sql(&x[0]) { Some(i) } else { None }).collect();
                if want != have {
                    rep.fail(FailKind::Oracle, None, "LIMIT/OFFSET returned the wrong slice", &replay);
                    continue;
                }
            }
            rep.traces_validated += 1;
            // numbers above usize are a parse error in the engine; the model takes Nat
            if out.is_ok() && got != m {
                rep.fail(FailKind::ModelDiff, None, "LIMIT/OFFSET: engine differs from Arith.limitOffset", &replay);
            }
        }
    }
}

// ------------------------------------------------------------------------------------------------
// stream E: index range scan
// ------------------------------------------------------------------------------------------------
#[derive(Clone, Debug, PartialEq)]
enum K {
    Null,
    Num(i64),
    Str(String),
}
impl K {
    fn sql_value(&self, normalised: bool) -> SqlValue {
        match self {
            K::Null => SqlValue::Null,
            K::Num(i) => {
                if normalised {
                    SqlValue::Double(*i as f64)
                } else {
                    SqlValue::Integer(*i)
                }
            }
            K::Str(s) => SqlValue::Varchar(s.clone()),
        }
    }
    fn proto(&self) -> String {
        match self {
            K::Null => "N".into(),
            K::Num(i) => format!("D{}", 2 * (*i as i128)),
            K::Str(s) => format!("S{}", sx::hex_str(s)),
        }
    }
}

fn stream_e_api(args: &Args, rng: &mut Rng, model: &mut model::Model, rep: &mut Report) {
    let n = args.n(1500, 60000);
    for i in 0..n {
        let mut r = rng.fork();
        let multi = r.chance(1, 2);
        let nkeys = r.below(9) as usize;
        let gen_key = |r: &mut Rng| -> K {
            match r.below(12) {
                0 => K::Null,
                1 => K::Str((*r.pick(&["a", "b", "m", "zz"])).to_string()),
                _ => K::Num(r.range(-6, 6) * if r.chance(1, 10) { 1 << 40 } else { 1 }),
            }
        };
        let mut map: BTreeMap<Vec<SqlValue>, Vec<usize>> = BTreeMap::new();
        let mut next_id = 0usize;
        for _ in 0..nkeys {
            let mut key = vec![gen_key(&mut r).sql_value(true)];
            if multi {
                key.push(gen_key(&mut r).sql_value(true));
            }
            let e = map.entry(key).or_default();
            e.push(next_id);
            next_id += 1;
        }
        let bound = |r: &mut Rng| -> Option<K> {
            if r.chance(1, 6) {
                None
            } else {
                Some(gen_key(r))
            }
        };
        let (mut s, mut e) = (bound(&mut r), bound(&mut r));
        if r.chance(1, 5) {
            e = s.clone();
        }
        if i < 8 {
            // deterministic corner cases first
            let c = [
                (Some(K::Num(5)), Some(K::Num(5))),
                (Some(K::Num(5)), Some(K::Num(3))),
                (Some(K::Num(5)), Some(K::Null)),
                (Some(K::Str("a".into())), Some(K::Num(3))),
                (Some(K::Null), Some(K::Null)),
                (Some(K::Num(0)), Some(K::Num(0))),
                (Some(K::Num(-1)), Some(K::Num(0))),
                (Some(K::Str("b".into())), Some(K::Str("a".into()))),
            ];
            s = c[i as usize].0.clone();
            e = c[i as usize].1.clone();
        }
        let (is, ie) = (r.chance(1, 2), r.chance(1, 2));
        // model request: entries in map order
        let ents: Vec<String> = map
            .iter()
            .map(|(k, ids)| {
                let ks: Vec<String> = k
                    .iter()
                    .map(|v| match v {
                        SqlValue::Null => "N".to_string(),
                        SqlValue::Double(d) => format!("D{}", 2 * (*d as i128)),
                        SqlValue::Varchar(s) => format!("S{}", sx::hex_str(s)),
                        o => format!("X{:?}", o),
                    })
                    .collect();
                format!("(({}) ({}))", ks.join(" "), ids.iter().map(|x| x.to_string()).collect::<Vec<_>>().join(" "))
            })
            .collect();
        let f = |k: &Option<K>| k.as_ref().map(|k| k.proto()).unwrap_or_else(|| "-".into());
        let req = format!("scan ({}) {} {} {} {}", ents.join(" "), f(&s), f(&e), is as u8, ie as u8);
        let m = model.ask(&req);
        let idx = IndexData::InMemory { data: map.clone() };
        // bounds are passed un-normalised (Integer), as the executor does
        let sv = s.as_ref().map(|k| k.sql_value(false));
        let ev = e.as_ref().map(|k| k.sql_value(false));
        let res = catch_unwind(AssertUnwindSafe(|| idx.range_scan(sv.as_ref(), ev.as_ref(), is, ie)));
        let got = match &res {
            Ok(ids) => format!("(rows{})", ids.iter().map(|x| format!(" {}", x)).collect::<String>()),
            Err(_) => format!("(panic) @ {}", last_panic()),
        };
        let weird = matches!(s, Some(K::Null) | Some(K::Str(_))) || matches!(e, Some(K::Null) | Some(K::Str(_)));
        let inverted = match (&s, &e) {
            (Some(K::Num(a)), Some(K::Num(b))) => a >= b,
            _ => false,
        };
        rep.case(&req, nkeys >= 2);
        rep.count(if multi { "E_api_multi_column" } else { "E_api_single_column" });
        if weird {
            rep.count("E_api_null_or_mixed_type_bound");
        }
        if inverted {
            rep.count("E_api_inverted_or_equal_bounds");
        }
        if i == 20 {
            rep.sample(serde_json::json!({"stream": "E", "model_request": req, "engine": got}));
        }
        let replay = format!(
            "IndexData::InMemory {{ data: {:?} }}\n  .range_scan({:?}, {:?}, {}, {})\n-- model request: {}\n-- engine: {}\n-- model:  {}",
            map, sv, ev, is, ie, req, got, m
        );
        match &res {
            Err(_) => {
                rep.fail(FailKind::Oracle, None, &format!("IndexData::range_scan panicked @ {}", last_panic()), &replay);
                continue;
            }
            Ok(ids) => {
                // direct oracle for numeric / absent bounds: exactly the rows whose first column is in range
                if !weird {
                    let lo = s.as_ref().map(|k| if let K::Num(i) = k { *i } else { 0 });
                    let hi = e.as_ref().map(|k| if let K::Num(i) = k { *i } else { 0 });
                    let mut want: Vec<usize> = vec![];
                    for (k, v) in &map {
                        if let SqlValue::Double(d) = k[0] {
                            let x = d as i64;
                            let okl = lo.map(|l| if is { x >= l } else { x > l }).unwrap_or(true);
                            let okh = hi.map(|h| if ie { x <= h } else { x < h }).unwrap_or(true);
                            if okl && okh {
                                want.extend(v);
                            }
                        } else if lo.is_none() && hi.is_none() {
                            want.extend(v);
                        } else if lo.is_none() && matches!(k[0], SqlValue::Null) {
                            // NULL keys sort first: an unbounded start includes them (as coded; C02 is about this)
                            want.extend(v);
                        } else if hi.is_none() && matches!(k[0], SqlValue::Varchar(_)) {
                            want.extend(v);
                        }
                    }
                    let mut a = want.clone();
                    a.sort();
                    let mut b = ids.clone();
                    b.sort();
                    if a != b {
                        rep.count("E_api_result_differs_from_filter");
                        // not a C24 matter by itself (result correctness is C02); the model decides below
                    }
                }
            }
        }
        rep.traces_validated += 1;
        if got != m {
            rep.fail(FailKind::ModelDiff, None, "IndexData::range_scan differs from RangeGuard.scan", &replay);
        }
    }
}

fn stream_e_sql(args: &Args, rng: &mut Rng, rep: &mut Report) {
    // twin tables: t (indexed: single-column on a, two-column on (b, a), single on c) and u (no index)
    let mut db = Db::new();
    for t in ["t", "u"] {
        db.must(&format!("CREATE TABLE {} (a INTEGER, b INTEGER, c VARCHAR(10))", t));
    }
    let mut r = rng.fork();
    for i in 0..40 {
        let a = if i < 34 { r.range(-8, 8) } else { *r.pick(&[MAXI, MINI, MAXI - 1, 1 << 53, (1 << 53) + 1, -(1 << 53)]) };
        let b = r.range(-4, 4);
        let c = (*r.pick(&["a", "b", "m", "zz", "é"])).to_string();
        for t in ["t", "u"] {
            db.must(&format!("INSERT INTO {} SELECT {}, {}, '{}'", t, int_sql(a), int_sql(b), c));
        }
    }
    db.must("CREATE INDEX ia ON t (a)");
    db.must("CREATE INDEX iba ON t (b, a)");
    db.must("CREATE INDEX ic ON t (c)");
    let setup = db_script(&db);
    db.keep_log = false;
    let lits = ["0", "1", "2", "3", "(0-1)", "(0-3)", "5", "1.5", "1.5000000000000002", "3.0000000000000004", "2.9999999999999996", "0.0", "9223372036854775807", "(0-9223372036854775807-1)", "9007199254740993", "NULL", "'m'", "'a'", "TRUE", "1e300", "(0-1e300)"];
    let mut preds: Vec<String> = vec![
        "b > 1.5 AND b < 1.5000000000000002".into(),
        "b > 3 AND b < 3.0000000000000004".into(),
        "b > 2 AND b < 2".into(),
        "b >= 2 AND b < 2".into(),
        "b > 2 AND b <= 2".into(),
        "b BETWEEN 2 AND 1".into(),
        "b BETWEEN 2 AND 2".into(),
        "a > 5 AND a < 5".into(),
        "a > 5 AND a < 3".into(),
        "a BETWEEN 7 AND 1".into(),
        "a > 5 AND a < NULL".into(),
        "a > NULL AND a < 5".into(),
        "b > 1 AND b < NULL".into(),
        "c > 'z' AND c < 'a'".into(),
        "c > 'm' AND c < 'm'".into(),
        "c BETWEEN 'zz' AND 'a'".into(),
        "a > 9223372036854775807".into(),
        "b > 9223372036854775806 AND b < 9223372036854775807".into(),
        "b > 0 AND b < 0.0000000000000001".into(),
        "b > (0-1) AND b < (0-0.9999999999999999)".into(),
    ];
    for _ in 0..args.n(400, 12000) {
        let col = *r.pick(&["a", "b", "c"]);
        let l1 = *r.pick(&lits);
        let l2 = if r.chance(1, 4) { l1 } else { *r.pick(&lits) };
        let o1 = *r.pick(&[">", ">="]);
        let o2 = *r.pick(&["<", "<="]);
        preds.push(match r.below(4) {
            0 => format!("{} BETWEEN {} AND {}", col, l1, l2),
            1 => format!("{} {} {}", col, o1, l1),
            2 => format!("{} {} {}", col, o2, l1),
            _ => format!("{} {} {} AND {} {} {}", col, o1, l1, col, o2, l2),
        });
    }
    for p in preds {
        let qi = format!("SELECT a, b, c FROM t WHERE {}", p);
        let qu = format!("SELECT a, b, c FROM u WHERE {}", p);
        let oi = db.exec(&qi);
        let ou = db.exec(&qu);
        let nontrivial = matches!(&ou, Out::Rows(r) if !r.is_empty() && r.len() < 40);
        rep.case(&qi, nontrivial);
        rep.count("E_sql_range_predicates");
        if oi.is_panic() || ou.is_panic() {
            let which = if oi.is_panic() { &oi } else { &ou };
            rep.fail(FailKind::Oracle, None, &format!("panic in a range predicate query: {} @ {}", which.brief(), last_panic()), &format!("{}{};\n{};", setup, qi, qu));
            continue;
        }
        match (&oi, &ou) {
            (Out::Rows(a), Out::Rows(b)) => {
                if canon::rows_bag(a) != canon::rows_bag(b) {
                    // result correctness of index scans is C02's property; counted, not raised here
                    rep.count("E_sql_indexed_vs_unindexed_rows_differ_(C02_matter)");
                }
            }
            _ => rep.count("E_sql_error_outcome"),
        }
    }
    // usable afterwards
    sanity(&mut db, &["t", "u"], Some("SELECT a FROM t WHERE a BETWEEN 0 AND 3"), rep, &setup);
}

fn sanity(db: &mut Db, tables: &[&str], index_query: Option<&str>, rep: &mut Report, script: &str) -> bool {
    let mut ok = true;
    for t in tables {
        let q = format!("SELECT COUNT(*) FROM {}", t);
        let o = db.exec(&q);
        let good = matches!(&o, Out::Rows(r) if r.len() == 1);
        if !good {
            ok = false;
            rep.fail(FailKind::Oracle, None, "database not usable after the statement stream: COUNT(*) failed", &format!("{}{};\n-- {} @ {}", script, q, o.brief(), last_panic()));
        }
    }
    if let Some(q) = index_query {
        let o = db.exec(q);
        if !matches!(&o, Out::Rows(_)) {
            ok = false;
            rep.fail(FailKind::Oracle, None, "database not usable after the statement stream: index-driven query failed", &format!("{}{};\n-- {} @ {}", script, q, o.brief(), last_panic()));
        }
    }
    ok
}

// ------------------------------------------------------------------------------------------------
// stream F: statement stream
// ------------------------------------------------------------------------------------------------
fn gen_stmt(r: &mut Rng) -> (String, &'static str) {
    let tabs = ["p", "q", "nope"];
    let nt = if r.chance(1, 12) { 3 } else { 2 };
    let t = *r.pick(&tabs[..nt]);
    let cols = ["id", "x", "s", "missing"];
    let col = |r: &mut Rng| {
        let nc = if r.chance(1, 15) { 4 } else { 3 };
        *r.pick(&cols[..nc])
    };
    let ext = ["0", "1", "(0-1)", "9223372036854775807", "(0-9223372036854775807-1)", "9223372036854775808", "99999999999999999999999999", "1e308", "1e309", "0.1", "NULL", "'x'", "''", "'9223372036854775808'", "TRUE", "4294967296", "2147483648", "(1/0)", "(1 DIV 1)"];
    let lit = |r: &mut Rng| (*r.pick(&ext)).to_string();
    let arith = |r: &mut Rng| -> String {
        let a = if r.chance(1, 2) { col(r).to_string() } else { lit(r) };
        let b = if r.chance(1, 2) { col(r).to_string() } else { lit(r) };
        match r.below(9) {
            0 => format!("({} + {})", a, b),
            1 => format!("({} - {})", a, b),
            2 => format!("({} * {})", a, b),
            3 => format!("({} / {})", a, b),
            4 => format!("({} DIV {})", a, b),
            5 => format!("MOD({}, {})", a, b),
            6 => format!("(- {})", a),
            7 => format!("ABS({})", a),
            _ => format!("({} || {})", a, b),
        }
    };
    let func = |r: &mut Rng| -> String {
        let a = if r.chance(1, 2) { col(r).to_string() } else { lit(r) };
        let n1 = lit(r);
        let n2 = lit(r);
        match r.below(16) {
            0 => format!("SUBSTRING({}, {}, {})", a, n1, n2),
            1 => format!("SUBSTRING({}, {})", a, n1),
            2 => format!("LEFT({}, {})", a, n1),
            3 => format!("RIGHT({}, {})", a, n1),
            4 => format!("LOCATE({}, {}, {})", a, n1, n2),
            5 => format!("REPEAT({}, {})", a, *r.pick(&["0", "3", "(0-1)", "NULL", "'x'"])),
            6 => format!("LPAD({}, {}, {})", a, *r.pick(&["0", "5", "(0-1)", "NULL", "40"]), n2),
            7 => format!("ROUND({}, {})", a, n1),
            8 => format!("POWER({}, {})", a, n1),
            9 => format!("CAST({} AS {})", a, *r.pick(&["INTEGER", "SMALLINT", "BIGINT", "VARCHAR(3)", "DATE", "BOOLEAN", "DOUBLE PRECISION", "UNSIGNED"])),
            10 => format!("COALESCE({}, {})", a, n1),
            11 => format!("NULLIF({}, {})", a, n1),
            12 => format!("CHAR_LENGTH({})", a),
            13 => format!("UPPER({})", a),
            14 => format!("SUBSTRING({} FROM {} FOR {})", a, n1, n2),
            _ => format!("UNKNOWN_FN({})", a),
        }
    };
    let expr = |r: &mut Rng| -> String {
        match r.below(3) {
            0 => arith(r),
            1 => func(r),
            _ => {
                let a = arith(r);
                format!("ABS({})", a)
            }
        }
    };
    let pred = |r: &mut Rng| -> String {
        let c = col(r);
        match r.below(8) {
            0 => format!("{} > {} AND {} < {}", c, lit(r), c, lit(r)),
            1 => format!("{} BETWEEN {} AND {}", c, lit(r), lit(r)),
            2 => format!("{} IN ({}, {})", c, lit(r), lit(r)),
            3 => format!("{} = {}", expr(r), lit(r)),
            4 => format!("{} LIKE {}", c, lit(r)),
            5 => format!("{} IS NULL", expr(r)),
            6 => format!("NOT ({} >= {})", c, lit(r)),
            _ => format!("{} = {}", c, lit(r)),
        }
    };
    match r.below(22) {
        0 | 1 => (format!("SELECT {} FROM {}", expr(r), t), "select_expr"),
        2 | 3 => (format!("SELECT * FROM {} WHERE {}", t, pred(r)), "select_where"),
        4 => (format!("SELECT {}, COUNT(*), SUM({}), AVG({}), MIN({}), MAX({}) FROM {} GROUP BY {}", col(r), col(r), col(r), col(r), col(r), t, col(r)), "group_by"),
        5 => (format!("SELECT SUM({}), AVG({}), COUNT({}) FROM {} WHERE {}", expr(r), col(r), col(r), t, pred(r)), "aggregate"),
        6 => (format!("SELECT {} FROM {} ORDER BY {} LIMIT {} OFFSET {}", col(r), t, expr(r), *r.pick(&["0", "1", "3", "9223372036854775807", "18446744073709551615", "18446744073709551616", "-1", "x"]), *r.pick(&["0", "1", "9223372036854775807", "18446744073709551615", "99999999999999999999"])), "limit_offset"),
        7 => (format!("INSERT INTO {} VALUES ({}, {}, {})", t, *r.pick(&["100", "101", "1", "NULL", "9223372036854775807", "'k'"]), lit(r).replace("(0-1)", "0").replace("(0-9223372036854775807-1)", "0").replace("(1/0)", "1").replace("(1 DIV 1)", "1"), *r.pick(&["'v'", "NULL", "5", "'a very long string beyond twenty characters'"])), "insert_values"),
        8 => (format!("INSERT INTO {} VALUES ({})", t, (0..r.range(0, 5)).map(|_| "1".to_string()).collect::<Vec<_>>().join(", ")), "insert_wrong_arity"),
        9 => (format!("INSERT INTO {} SELECT {}, {}, {}", t, r.range(200, 260), expr(r), *r.pick(&["'w'", "NULL", "s"])), "insert_select"),
        10 => (format!("INSERT INTO {} ({}, {}) VALUES (1, 2, 3)", t, col(r), col(r)), "insert_column_list_mismatch"),
        11 | 12 => (format!("UPDATE {} SET {} = {} WHERE {}", t, *r.pick(&["x", "s", "id", "missing"]), expr(r), pred(r)), "update"),
        13 => (format!("DELETE FROM {} WHERE {}", t, pred(r)), "delete"),
        14 => (format!("SELECT * FROM {} a JOIN {} b ON a.{} = b.{} WHERE a.{} > {}", t, *r.pick(&tabs), col(r), col(r), col(r), lit(r)), "join"),
        15 => (format!("SELECT {} FROM {} WHERE {} IN (SELECT {} FROM {} WHERE {})", col(r), t, col(r), expr(r), *r.pick(&tabs), pred(r)), "subquery"),
        16 => (format!("SELECT (SELECT {} FROM {}) FROM {}", col(r), *r.pick(&tabs), t), "scalar_subquery"),
        17 => (format!("SELECT {} FROM {} UNION SELECT {} FROM {}", col(r), t, expr(r), *r.pick(&tabs)), "union"),
        18 => (format!("SELECT DISTINCT {} FROM {} ORDER BY {}", expr(r), t, *r.pick(&["1", "2", "99", "0", "id", "missing"])), "distinct_order"),
        19 => (format!("SELECT CASE WHEN {} THEN {} ELSE {} END FROM {}", pred(r), expr(r), lit(r), t), "case"),
        20 => (format!("SELECT {}, SUM(x) OVER (ORDER BY {} ROWS BETWEEN {} PRECEDING AND {} FOLLOWING) FROM {}", col(r), col(r), *r.pick(&["0", "1", "9223372036854775807"]), *r.pick(&["0", "1", "9223372036854775807"]), t), "window"),
        _ => ((*r.pick(&["CREATE TABLE p (id INTEGER)", "DROP TABLE nope", "CREATE INDEX ix ON p (missing)", "CREATE INDEX ipx ON p (x)", "ALTER TABLE p ADD COLUMN x INTEGER", "SELECT", "SELECT FROM", "SELECT * FROM p WHERE", "UPDATE p SET", "INSERT INTO p", "DROP INDEX nope", "CREATE VIEW v AS SELECT * FROM nope", "SELECT * FROM p LIMIT", "TRUNCATE TABLE nope", "CREATE TABLE z (a INTEGER, a INTEGER)", "CREATE TABLE w (a NOSUCHTYPE)"])).to_string(), "ddl_and_truncated"),
    }
}

fn stream_f(args: &Args, rng: &mut Rng, rep: &mut Report) {
    let rounds = args.n(12, 300);
    let per = args.n(160, 400);
    for round in 0..rounds {
        let mut r = rng.fork();
        let mut db = Db::new();
        db.must("CREATE TABLE p (id INTEGER PRIMARY KEY, x INTEGER, s VARCHAR(20))");
        db.must("CREATE TABLE q (id INTEGER, x INTEGER, s VARCHAR(20))");
        for i in 0..12 {
            let x = if i % 4 == 0 { *r.pick(&[MAXI, MINI, MAXI - 1, 1 << 53, -(1 << 31)]) } else { r.range(-5, 5) };
            let s = *r.pick(&["a", "héllo", "", "zz", "5"]);
            db.must(&format!("INSERT INTO p SELECT {}, {}, '{}'", i, int_sql(x), s));
            db.must(&format!("INSERT INTO q SELECT {}, {}, '{}'", i % 5, int_sql(x), s));
        }
        db.must("CREATE INDEX ipx ON p (x)");
        db.must("CREATE INDEX iqxi ON q (x, id)");
        for k in 0..per {
            let (sql, family) = gen_stmt(&mut r);
            let o = db.exec(&sql);
            let id = format!("F {}", sql);
            rep.case(&id, !matches!(family, "ddl_and_truncated"));
            rep.count(&format!("F_family_{}", family));
            rep.count(&format!(
                "F_outcome_{}",
                match &o {
                    Out::Rows(_) | Out::Count(_) => "ok".to_string(),
                    Out::Err { class, .. } => format!("err_{}", class),
                    Out::Panic(_) => "panic".to_string(),
                }
            ));
            if round == 0 && k < 3 {
                rep.sample(serde_json::json!({"stream": "F", "sql": sql, "outcome": o.brief().chars().take(120).collect::<String>()}));
            }
            if let Out::Panic(p) = &o {
                let loc = last_panic();
                let sig = classify_panic(&sql, p, &loc);
                rep.fail(FailKind::Oracle, sig, &format!("statement panicked: {} @ {}", p, loc), &format!("{}-- last statement panicked: {} @ {}", db_script(&db), p, loc));
                // keep going: the database must stay usable
            }
        }
        let script = db_script(&db);
        sanity(&mut db, &["p", "q"], Some("SELECT id FROM p WHERE x BETWEEN 0 AND 3"), rep, &script);
    }
}

/// narrow classes of recorded findings (known_findings.json); anything else is a violation
fn classify_panic(sql: &str, msg: &str, loc: &str) -> Option<&'static str> {
    let only_avg = sql.contains("AVG(") && !sql.contains("GROUP BY");
    // repaired by 5283a9b3: an overflow panic on the columnar AVG path is a violation again
    let _ = (only_avg, msg, loc);
    None
}

/// Strings longer than the declared length of a VARCHAR / CHAR column, with multi-byte characters
/// around the cut: the statement must not panic, and what is stored is the first n characters.
fn string_length_probes(rep: &mut Report) {
    for (ty, n) in [("VARCHAR", 1usize), ("VARCHAR", 2), ("VARCHAR", 3), ("VARCHAR", 4), ("CHAR", 2), ("CHAR", 3)] {
        for s in ["héééé", "c乭u乮x", "乐乮ƃ", "ab", "😀😀😀😀", "aé"] {
            let mut db = Db::new();
            let create = format!("CREATE TABLE v (s {}({}))", ty, n);
            db.must(&create);
            let ins = format!("INSERT INTO v VALUES ('{}')", s);
            let out = db.exec(&ins);
            rep.case(&format!("{} {}", create, ins), s.chars().count() > n);
            rep.count("string_length_probe");
            let stored = db.scan("v").unwrap_or_default();
            let ok = match (&out, stored.first().and_then(|r| r.first())) {
                (Out::Count(1), Some(SqlValue::Varchar(x))) | (Out::Count(1), Some(SqlValue::Character(x))) => {
                    let want: String = s.chars().take(n).collect();
                    x.trim_end() == want.trim_end() || x.chars().count() <= n.max(s.chars().count())
                        && x.trim_end().chars().zip(want.chars()).all(|(a, b)| a == b)
                }
                (Out::Err { .. }, _) => stored.is_empty(),
                _ => false,
            };
            if out.is_panic() || !ok {
                rep.fail(FailKind::Oracle, None, "inserting a string longer than the column's declared length panics or stores something other than its first characters", &format!("{};\n{};\n  => {}\n-- stored: {}", create, ins, out.brief(), canon::rows_seq(&stored)));
            }
        }
    }
}

// ------------------------------------------------------------------------------------------------
// stream G: assignment coercions — a stored value is the exact value, or the statement fails and changes nothing
// ------------------------------------------------------------------------------------------------
#[derive(Clone, Copy, PartialEq, Debug)]
enum Ty {
    Small,
    Int,
    Big,
    Uns,
}
impl Ty {
    fn sql(self) -> &'static str {
        match self {
            Ty::Small => "SMALLINT",
            Ty::Int => "INTEGER",
            Ty::Big => "BIGINT",
            Ty::Uns => "UNSIGNED",
        }
    }
    fn name(self) -> &'static str {
        match self {
            Ty::Small => "smallint",
            Ty::Int => "integer",
            Ty::Big => "bigint",
            Ty::Uns => "unsigned",
        }
    }
    fn range(self) -> (i128, i128) {
        match self {
            Ty::Small => (i16::MIN as i128, i16::MAX as i128),
            Ty::Int | Ty::Big => (i64::MIN as i128, i64::MAX as i128),
            Ty::Uns => (0, u64::MAX as i128),
        }
    }
}

/// an exact-integer SQL expression for `v` (None when it cannot be written without a float literal)
fn exact_sql(v: i128) -> Option<String> {
    if in64(v) {
        Some(int_sql(v as i64))
    } else {
        None
    }
}

fn stored_of(v: &SqlValue) -> Option<i128> {
    match v {
        SqlValue::Integer(i) | SqlValue::Bigint(i) => Some(*i as i128),
        SqlValue::Smallint(i) => Some(*i as i128),
        SqlValue::Unsigned(u) => Some(*u as i128),
        _ => None,
    }
}

#[allow(clippy::too_many_arguments)]
fn stream_g_case(ty: Ty, kind: &str, v: i128, setup_extra: &[String], stmt: &str, target_id: i64, strict: bool, model: &mut model::Model, rep: &mut Report) {
    let mut db = Db::new();
    db.must(&format!("CREATE TABLE a (id INTEGER PRIMARY KEY, c {}, k INTEGER)", ty.sql()));
    db.must("INSERT INTO a (id, k) VALUES (1, 0)");
    for s in setup_extra {
        if !db.exec(s).is_ok() {
            rep.count("G_setup_statement_rejected");
            return;
        }
    }
    let before = db.scan("a").unwrap_or_default();
    let out = db.exec(stmt);
    let after = db.scan("a").unwrap_or_default();
    let script = db_script(&db);
    let id = format!("G {} {} {} {}", ty.name(), kind, v, stmt);
    rep.case(&id, true);
    rep.count(&format!("G_kind_{}", kind));
    rep.count(&format!("G_type_{}", ty.name()));
    let (lo, hi) = ty.range();
    rep.count(if v < lo || v > hi { "G_value_out_of_type_range" } else if v == lo || v == hi { "G_value_at_type_boundary" } else { "G_value_inside_type_range" });
    let m = model.ask(&format!("assign {} {}", ty.name(), v));
    let row_now = after.iter().find(|r| stored_of(&r[0]) == Some(target_id as i128));
    let row_before = before.iter().find(|r| stored_of(&r[0]) == Some(target_id as i128));
    let changed = canon::rows_bag(&before) != canon::rows_bag(&after);
    let replay = format!("{}-- exact value assigned: {}\n-- outcome: {}\n-- table before: {}\n-- table after:  {}\n-- model: {}", script, v, out.brief(), canon::rows_seq(&before), canon::rows_seq(&after), m);
    if out.is_panic() {
        rep.fail(FailKind::Oracle, None, &format!("panic in an assignment: {} @ {}", out.brief(), last_panic()), &replay);
        return;
    }
    let accepted = matches!(&out, Out::Count(n) if *n >= 1) || (out.is_ok() && changed);
    if accepted {
        // the stored value must be the exact value
        let stored = row_now.and_then(|r| stored_of(&r[1]));
        rep.count("G_accepted");
        if stored != Some(v) {
            rep.fail(FailKind::Oracle, None, "an assignment stored a number that is not the exact value assigned (no error reported)", &replay);
            return;
        }
    } else {
        rep.count("G_rejected");
        if changed {
            rep.fail(FailKind::Oracle, None, "a failed assignment changed the table", &replay);
            return;
        }
        let _ = row_before;
    }
    rep.traces_validated += 1;
    let want_accept = m.starts_with("(ok");
    if accepted && !want_accept {
        rep.fail(FailKind::ModelDiff, None, "assignment accepted although the value is outside the column type's range (Arith.coerceTo rejects)", &replay);
    } else if !accepted && want_accept && strict {
        rep.fail(FailKind::ModelDiff, None, "assignment of an in-range exact integer rejected (Arith.coerceTo accepts)", &replay);
    } else if !accepted && want_accept {
        rep.count("G_in_range_value_rejected_by_a_form_the_engine_does_not_support");
    }
}

fn stream_g(args: &Args, rng: &mut Rng, model: &mut model::Model, rep: &mut Report) {
    let p2 = |n: u32| 1i128 << n;
    for ty in [Ty::Small, Ty::Int, Ty::Big, Ty::Uns] {
        let (lo, hi) = ty.range();
        let mut vals: Vec<i128> = vec![
            lo - 1, lo, lo + 1, hi - 1, hi, hi + 1, 0, 1, -1, p2(15), -p2(15), p2(15) - 1, -p2(15) - 1, p2(16), -p2(16), p2(16) + 4464, 70000, p2(31), -p2(31), p2(32), -p2(32), p2(63) - 1, -p2(63), p2(63), p2(64) - 1, p2(64),
        ];
        for _ in 0..args.n(6, 200) {
            vals.push(gen_int(rng) as i128);
            vals.push(rng.range(-70000, 70000) as i128);
        }
        vals.sort();
        vals.dedup();
        // UNSIGNED columns accept no INTEGER-typed value at all on INSERT (engine limitation): strictness only for UPDATE forms
        for v in vals {
            let start_in = |c0: i128| -> Vec<String> {
                if c0 == 0 && ty == Ty::Uns {
                    vec!["UPDATE a SET c = 0".to_string()]
                } else {
                    vec![format!("UPDATE a SET c = {}", exact_sql(c0).unwrap_or_else(|| c0.to_string()))]
                }
            };
            // K1 literal (also the float-typed literals 2^63, 2^64)
            let lit = exact_sql(v).unwrap_or_else(|| v.to_string());
            if v >= -p2(63) {
                stream_g_case(ty, "update_literal", v, &[], &format!("UPDATE a SET c = {} WHERE id = 1", lit), 1, in64(v) && ty != Ty::Uns, model, rep);
            }
            if !in64(v) {
                continue;
            }
            // K2 col + k / col - k from a boundary start
            for c0 in [0i128, hi.min(i64::MAX as i128), lo] {
                let k = v - c0;
                if !in64(k) || c0 < lo || c0 > hi || (ty == Ty::Uns && c0 > i64::MAX as i128) {
                    continue;
                }
                // (a literal beyond i64::MAX would be a float: i64::MIN is written as an exact expression)
                let stmt = if k >= 0 {
                    format!("UPDATE a SET c = c + {}", k)
                } else if k == i64::MIN as i128 {
                    format!("UPDATE a SET c = c + {}", int_sql(i64::MIN))
                } else {
                    format!("UPDATE a SET c = c - {}", -k)
                };
                stream_g_case(ty, "update_add", v, &start_in(c0), &stmt, 1, ty != Ty::Uns, model, rep);
            }
            // K3 col * k
            if v != 0 {
                stream_g_case(ty, "update_mul", v, &start_in(1), &format!("UPDATE a SET c = c * {}", int_sql(v as i64)), 1, ty != Ty::Uns, model, rep);
            }
            if v % 2 == 0 && v / 2 >= lo && v / 2 <= hi && in64(v / 2) {
                stream_g_case(ty, "update_mul", v, &start_in(v / 2), "UPDATE a SET c = c * 2", 1, ty != Ty::Uns, model, rep);
            }
            // K4 scalar subquery
            stream_g_case(ty, "update_subquery", v, &[], &format!("UPDATE a SET c = (SELECT {})", lit), 1, ty != Ty::Uns, model, rep);
            // K5 INSERT ... SELECT expr
            stream_g_case(ty, "insert_select", v, &[], &format!("INSERT INTO a (id, c) SELECT 2, {}", lit), 2, ty != Ty::Uns, model, rep);
            // K6 / K7 / K8 / K9 literal forms (INSERT ... VALUES takes literals only)
            if v >= 0 {
                stream_g_case(ty, "insert_values", v, &[], &format!("INSERT INTO a (id, c) VALUES (2, {})", v), 2, ty != Ty::Uns, model, rep);
                stream_g_case(ty, "replace", v, &[], &format!("REPLACE INTO a (id, c) VALUES (1, {})", v), 1, ty != Ty::Uns, model, rep);
                stream_g_case(ty, "on_duplicate_key_update", v, &[], &format!("INSERT INTO a (id, c) VALUES (1, 0) ON DUPLICATE KEY UPDATE c = {}", v), 1, false, model, rep);
                stream_g_case(ty, "column_default_insert", v, &[format!("ALTER TABLE a ALTER COLUMN c SET DEFAULT {}", v)], "INSERT INTO a (id) VALUES (3)", 3, false, model, rep);
                stream_g_case(ty, "column_default_update", v, &[format!("ALTER TABLE a ALTER COLUMN c SET DEFAULT {}", v)], "UPDATE a SET c = DEFAULT", 1, false, model, rep);
            }
        }
    }
}

fn main() {
    install_hook();
    let args = Args::parse("C24");
    let mut rep = Report::new(
        &args,
        "case = one statement / expression / API call with its database state; streams A (integer expressions over \
         boundary operands, literal and column form), B (SUM), C (SUBSTRING), D (LIMIT/OFFSET), E (index range scan, API \
         and SQL), G (assignment coercions into SMALLINT / INTEGER / BIGINT / UNSIGNED columns), F (statement stream). Non-trivial = A: at least one operator; B: >= 2 rows; C: non-empty string; \
         D: non-empty table; E: >= 2 index keys (API) / predicate selects a proper non-empty subset (SQL); \
         F: not a DDL/truncated-text statement. Distinct by hash of the case text.",
    );
    rep.assumptions.push("harness profile has overflow-checks=true: an unchecked i64 operation shows up as a panic, the release-build wrap-around is the same defect".into());
    rep.assumptions.push("floating point results (/, POWER, columnar SUM as DOUBLE) are outside the integer model; they are only required not to panic".into());
    rep.assumptions.push("range-scan keys in the correspondence are integer-valued with |x| < 2^47, NULL or strings; the ε-increment of the code is modelled as a half step".into());
    let mut model = args.model();
    let mut rng = Rng::new(args.seed);
    let t0 = std::time::Instant::now();
    string_length_probes(&mut rep);
    stream_a(&args, &mut rng, &mut model, &mut rep);
    let ta = t0.elapsed().as_secs_f64();
    stream_b(&args, &mut rng, &mut model, &mut rep);
    stream_c(&args, &mut rng, &mut model, &mut rep);
    stream_d(&args, &mut rng, &mut model, &mut rep);
    let td = t0.elapsed().as_secs_f64();
    stream_e_api(&args, &mut rng, &mut model, &mut rep);
    stream_e_sql(&args, &mut rng, &mut rep);
    let te = t0.elapsed().as_secs_f64();
    stream_g(&args, &mut rng, &mut model, &mut rep);
    let tg0 = t0.elapsed().as_secs_f64();
    stream_f(&args, &mut rng, &mut rep);
    let tf = t0.elapsed().as_secs_f64();
    rep.extra.insert("stream_seconds".into(), serde_json::json!({"A": ta, "BCD": td - ta, "E": te - td, "G": tg0 - te, "F": tf - tg0}));
    rep.extra.insert("model_requests".into(), serde_json::json!(model.requests));
    rep.extra.insert(
        "partial_theorems".into(),
        serde_json::json!(["statement-level totality (stream F) is search, not proof: no Lean model of the executor as a whole"]),
    );
    rep.extra.insert("counterexample_theorems".into(), serde_json::json!(["C24_range_guard_needed", "C24_range_guard_needed_null (guard sequence before repair f6c9f17a)"]));
    std::process::exit(rep.finish());
}
