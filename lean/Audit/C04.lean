import VibeProof.Props.C04
#print axioms VibeProof.C04.merge_mergeSort
#print axioms VibeProof.C04.C04_parSort_eq_sort
#print axioms VibeProof.C04.C04_parSort_sorted_perm
#print axioms VibeProof.C04.C04_parFilter
#print axioms VibeProof.C04.C04_parMap
#print axioms VibeProof.C04.C04_buildHashPar
#print axioms VibeProof.C04.C04_combine
#print axioms VibeProof.C04.C04_parAggregate
#print axioms VibeProof.C04.C04_parHashJoin
#print axioms VibeProof.C04.C04_hashSemiPar
#print axioms VibeProof.C04.C04_hashAntiPar
#print axioms VibeProof.C04.C04_truthiness_tables_agree
