import VibeProof.Model.Codec
import VibeProof.Model.Agg
/-
Protocol glue shared by drv_c03 and drv_c07 (not part of any theorem).

  (agg FN D (V…))                                  → RES        accumulator fold + finalize
  (combine FN D (V…) (V…))                         → (RES RES)  finalize(combine(acc xs, acc ys)), finalize(acc(xs++ys))
  (query (ITEM…) (PRED…) HAVING ORD LIM OFF (ROW…)) → (q EXEC ROWPATH COLUMNAR)
  (group KEYCOL (ITEM…) (PRED…) (ROW…))            → (groups (KEY RES…)…)
  ITEM = (FN ARG D)  ARG = * | <col>      PRED = (OP col V) | (between col V V)
  HAVING = - | (item OP int)   ORD = 0|1   LIM, OFF = - | <nat>
  RES = N | I<int> | S<hex> | B0/B1 | (ratio sum count)
-/
namespace Drivers.AggCommon
open VibeProof VibeProof.Proto VibeProof.Codec VibeProof.Agg

def decFn : String → Option AggFn
  | "count" => some .count | "sum" => some .sum | "avg" => some .avg
  | "min" => some .min | "max" => some .max | _ => none

def decOp : String → Option CmpOp
  | "lt" => some .lt | "gt" => some .gt | "le" => some .le | "ge" => some .ge | "eq" => some .eq
  | _ => none

def decBool : String → Option Bool
  | "0" => some false | "1" => some true | _ => none

def encRes : Res → Sx
  | .null => .atom "N"
  | .val v => .atom (encValue v)
  | .ratio s c => .list [.atom "ratio", sxInt s, sxNat c]

def decItem : Sx → Option Item
  | .list [.atom f, .atom a, .atom d] => do
      let fn ← decFn f
      let arg ← if a = "*" then some none else a.toNat?.map some
      pure { fn := fn, arg := arg, distinct := (← decBool d) }
  | _ => none

def decPred : Sx → Option Pred
  | .list [.atom "between", .atom c, .atom lo, .atom hi] => do
      pure (Pred.between (← c.toNat?) (← decValue lo) (← decValue hi))
  | .list [.atom op, .atom c, .atom v] => do
      pure (Pred.cmp (← decOp op) (← c.toNat?) (← decValue v))
  | _ => none

def decOptNat : Sx → Option (Option Nat)
  | .atom "-" => some none
  | .atom s => s.toNat?.map some
  | _ => none

def decHaving : Sx → Option (Option Having)
  | .atom "-" => some none
  | .list [.atom i, .atom op, .atom l] => do
      pure (some { item := (← i.toNat?), op := (← decOp op), lit := (← l.toInt?) })
  | _ => none

def decValues : Sx → Option (List Value)
  | .list xs => xs.mapM decValueSx
  | _ => none

def encResRows : Except Err (List (List Res)) → Sx
  | .ok rs => .list (.atom "rows" :: rs.map (fun r => .list (r.map encRes)))
  | .error e => encErr e

def handle : List Sx → Sx
  | [.atom "agg", .atom f, .atom d, vs] =>
    match decFn f, decBool d, decValues vs with
    | some fn, some dd, some xs => encRes (accAll fn dd xs).finalize
    | _, _, _ => .atom "bad-request"
  | [.atom "combine", .atom f, .atom d, xs, ys] =>
    match decFn f, decBool d, decValues xs, decValues ys with
    | some fn, some dd, some a, some b =>
      match (accAll fn dd a).combine (accAll fn dd b) with
      | .ok c => .list [encRes c.finalize, encRes (accAll fn dd (a ++ b)).finalize]
      | .error e => encErr e
    | _, _, _, _ => .atom "bad-request"
  | [.atom "query", .list items, .list preds, hv, .atom ord, lim, off, rows] =>
    match items.mapM decItem, preds.mapM decPred, decHaving hv, decBool ord, decOptNat lim,
          decOptNat off, decRows rows with
    | some its, some ps, some h, some o, some l, some f, some rs =>
      let q : Stmt := { items := its, preds := ps, having := h, orderBy := o, limit := l, offset := f }
      .list [.atom "q", encResRows (execute q rs), encResRows (rowPath q rs),
        match tryColumnar q rs with
        | some r => encResRows r
        | none => .atom "declined"]
    | _, _, _, _, _, _, _ => .atom "bad-request"
  | [.atom "group", .atom k, .list items, .list preds, rows] =>
    match k.toNat?, items.mapM decItem, preds.mapM decPred, decRows rows with
    | some kc, some its, some ps, some rs =>
      match rowPathGrouped kc its ps rs with
      | .ok gs => .list (.atom "groups" :: gs.map (fun g => .list (.atom (encValue g.1) :: g.2.map encRes)))
      | .error e => encErr e
    | _, _, _, _ => .atom "bad-request"
  | _ => .atom "bad-request"

end Drivers.AggCommon
