import VibeProof.Model.Rel
import VibeProof.Model.Expr
/-
C06 — Predicates partition rows consistently under three-valued logic.

All statements are over the relational kernel, for every row type, every row list and every
predicate function `p : α → TV` (hence for every predicate expression, see the corollaries
at the SQL layer at the end).
-/
namespace VibeProof.C06
open VibeProof TV

/-- every truth value satisfies exactly one of the three selectors -/
theorem C06_exactly_one (v : TV) :
    (v = t ∧ not3 v ≠ t ∧ isU v ≠ t) ∨ (v ≠ t ∧ not3 v = t ∧ isU v ≠ t) ∨
    (v ≠ t ∧ not3 v ≠ t ∧ isU v = t) := by
  cases v <;> simp [not3, isU]

/-- three Boolean selectors of which exactly one holds on every element split a list -/
theorem perm3 {α : Type} (a b c : α → Bool)
    (h : ∀ x, (a x = true ∧ b x = false ∧ c x = false) ∨ (a x = false ∧ b x = true ∧ c x = false)
            ∨ (a x = false ∧ b x = false ∧ c x = true)) (l : List α) :
    (l.filter a ++ (l.filter b ++ l.filter c)).Perm l := by
  induction l with
  | nil => simp
  | cons r rs ih =>
    rcases h r with ⟨ha, hb, hc⟩ | ⟨ha, hb, hc⟩ | ⟨ha, hb, hc⟩
    · simp only [List.filter_cons, ha, hb, hc, List.cons_append]
      exact List.Perm.cons r ih
    · simp only [List.filter_cons, ha, hb, hc, List.cons_append]
      exact List.Perm.trans List.perm_middle (List.Perm.cons r ih)
    · simp only [List.filter_cons, ha, hb, hc]
      have : (List.filter a rs ++ (List.filter b rs ++ r :: List.filter c rs)).Perm
          (r :: (List.filter a rs ++ (List.filter b rs ++ List.filter c rs))) := by
        rw [← List.append_assoc, ← List.append_assoc]
        exact List.perm_middle
      exact List.Perm.trans this (List.Perm.cons r ih)

/-- The rows of Q are the disjoint union (as a multiset) of Q with `p`, with `NOT p`, and with
`p IS NULL` added. -/
theorem C06_partition {α : Type} (p : α → TV) (rows : List α) :
    (filter3 p rows ++ (filter3 (fun r => not3 (p r)) rows ++ filter3 (fun r => isU (p r)) rows)).Perm rows := by
  unfold filter3
  apply perm3
  intro x
  show (p x == t) = true ∧ (not3 (p x) == t) = false ∧ (isU (p x) == t) = false ∨
    (p x == t) = false ∧ (not3 (p x) == t) = true ∧ (isU (p x) == t) = false ∨
      (p x == t) = false ∧ (not3 (p x) == t) = false ∧ (isU (p x) == t) = true
  generalize p x = v
  cases v <;> simp [not3, isU]

/-- the three parts are pairwise disjoint by position: lengths add up -/
theorem C06_lengths {α : Type} (p : α → TV) (rows : List α) :
    (filter3 p rows).length + ((filter3 (fun r => not3 (p r)) rows).length
      + (filter3 (fun r => isU (p r)) rows).length) = rows.length := by
  have := (C06_partition p rows).length_eq
  simpa [List.length_append] using this

/-- no row is selected by two of the three filters -/
theorem C06_disjoint {α : Type} (p : α → TV) (r : α) :
    ¬ (p r = t ∧ not3 (p r) = t) ∧ ¬ (p r = t ∧ isU (p r) = t) ∧ ¬ (not3 (p r) = t ∧ isU (p r) = t) := by
  generalize p r = v
  cases v <;> simp [not3, isU]

/-- number of rows passing `WHERE p` = number of rows whose select-list value of `p` is TRUE -/
theorem C06_count_matches_select_list {α : Type} (p : α → TV) (rows : List α) :
    (filter3 p rows).length = (rows.map p).count t := by
  induction rows with
  | nil => simp [filter3]
  | cons r rs ih =>
    unfold filter3 at *
    cases h : p r <;> simp [List.filter_cons, h, ih, List.count_cons]

/-- membership: a row passes the filter iff it is a row and the predicate is TRUE on it
(FALSE and UNKNOWN rows never pass) -/
theorem C06_filter_mem {α : Type} (p : α → TV) (rows : List α) (r : α) :
    r ∈ filter3 p rows ↔ r ∈ rows ∧ p r = t := by
  simp [filter3]

/-- DISTINCT form: the distinct rows of Q are those of the three parts together -/
theorem C06_distinct_form {α : Type} (p : α → TV) (rows : List α) (r : α) :
    r ∈ rows ↔ (r ∈ filter3 p rows ∨ r ∈ filter3 (fun r => not3 (p r)) rows
                 ∨ r ∈ filter3 (fun r => isU (p r)) rows) := by
  simp only [C06_filter_mem]
  cases h : p r <;> simp [not3, isU]

/-- aggregate form for any additive aggregate (COUNT, SUM as a monoid fold): the aggregate
over Q is the sum over the three parts -/
theorem C06_additive_aggregate {α : Type} (p : α → TV) (w : α → Int) (rows : List α) :
    (rows.map w).sum = ((filter3 p rows).map w).sum
        + ((filter3 (fun r => not3 (p r)) rows).map w).sum
        + ((filter3 (fun r => isU (p r)) rows).map w).sum := by
  induction rows with
  | nil => simp [filter3]
  | cons r rs ih =>
    unfold filter3 at *
    cases h : p r <;> simp [List.filter_cons, h, ih, not3, isU] <;> omega

/-! SQL layer: the three derived predicates are what the evaluator computes for
`NOT e` and `e IS NULL` on boolean-typed `e`. -/

theorem C06_sql_not (e : Expr) (row : Row) (v : TV) (h : (e.eval row).bind Value.toTV = .ok v) :
    ((Expr.not e).eval row).bind Value.toTV = .ok (not3 v) := by
  simp only [Expr.eval]
  cases he : e.eval row with
  | error x => simp [he, Except.bind] at h
  | ok x =>
    simp only [he, Except.bind] at h
    cases x with
    | null => simp [Value.toTV] at h; subst h; simp [bind, Except.bind, notV, Value.toTV, Value.ofTV, not3, pure, Except.pure]
    | bool b => cases b <;> simp [Value.toTV] at h <;> subst h <;>
        simp [bind, Except.bind, notV, Value.toTV, Value.ofTV, not3, pure, Except.pure]
    | int i => simp [Value.toTV] at h
    | str s => simp [Value.toTV] at h

theorem C06_sql_is_null (e : Expr) (row : Row) (v : TV) (h : (e.eval row).bind Value.toTV = .ok v) :
    ((Expr.isNull e false).eval row).bind Value.toTV = .ok (isU v) := by
  simp only [Expr.eval]
  cases he : e.eval row with
  | error x => simp [he, Except.bind] at h
  | ok x =>
    simp only [he, Except.bind] at h
    cases x with
    | null => simp [Value.toTV] at h; subst h; simp [bind, Except.bind, Value.toTV, Value.isNull, isU, pure, Except.pure]
    | bool b => cases b <;> simp [Value.toTV] at h <;> subst h <;>
        simp [bind, Except.bind, Value.toTV, Value.isNull, isU, pure, Except.pure]
    | int i => simp [Value.toTV] at h
    | str s => simp [Value.toTV] at h

/-- non-vacuity: a table on which a predicate takes all three truth values -/
example : let p : Nat → TV := fun n => if n = 0 then u else if n % 2 = 0 then t else f
    filter3 p [0, 1, 2, 3] = [2] ∧ filter3 (fun r => not3 (p r)) [0, 1, 2, 3] = [1, 3]
      ∧ filter3 (fun r => isU (p r)) [0, 1, 2, 3] = [0] := by decide

end VibeProof.C06
