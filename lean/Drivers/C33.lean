import VibeProof.Model.Codec
import VibeProof.Model.Ddl
open VibeProof VibeProof.Proto VibeProof.Codec VibeProof.Ddl

/-
request `trace (OP…)`; reply `(trace STEP…)`, STEP = `(ERR (catalog (N (col…))…) (stored (N (col…) (ROW…))…) (reg (I N (col…))…))`
one STEP after every op.  index names travel as hex; the registry key normalisation is `String.toUpper`.
OP: `(ct N (col…))` `(dt N)` `(ci I N (col…))` `(di I)` `(ins N ROW)` `(clr N)` `(ac N C)` `(dc N C)`
-/
def decNames : Sx → Option (List String)
  | .list xs => xs.mapM Sx.atom?
  | _ => none

def decOp : Sx → Option DOp
  | .list [.atom "ct", .atom n, cols] => do pure (.createTable n (← decNames cols))
  | .list [.atom "dt", .atom n] => some (.dropTable n)
  | .list [.atom "ci", .atom i, .atom n, cols] => do pure (.createIndex (← hexToStr i) n (← decNames cols))
  | .list [.atom "di", .atom i] => do pure (.dropIndex (← hexToStr i))
  | .list [.atom "cc", .atom n, .atom o, .atom c] => some (.changeColumn n o c)
  | .list [.atom "mc", .atom n, .atom c] => some (.modifyColumn n c)
  | .list [.atom "ins", .atom n, r] => do pure (.insert n (← decRow r))
  | .list [.atom "clr", .atom n] => some (.clear n)
  | .list [.atom "ac", .atom n, .atom c] => some (.addColumn n c)
  | .list [.atom "dc", .atom n, .atom c] => some (.dropColumn n c)
  | _ => none

def encErrD : Option DErr → Sx
  | none => .atom "ok"
  | some e => .atom (match e with
    | .tableExists => "tableExists" | .tableMissing => "tableMissing" | .indexExists => "indexExists"
    | .indexMissing => "indexMissing" | .columnMissing => "columnMissing" | .columnExists => "columnExists"
    | .columnCount => "columnCount" | .lastColumn => "lastColumn")

def names (xs : List String) : Sx := .list (xs.map Sx.atom)

def encState (e : Option DErr) (s : DState) : Sx :=
  .list [encErrD e,
    .list (.atom "catalog" :: s.catalog.map (fun c => .list [.atom c.1, names c.2])),
    .list (.atom "stored" :: s.stored.map (fun c => .list [.atom c.1, names c.2.cols, encRows c.2.rows])),
    .list (.atom "reg" :: s.reg.map (fun ix => .list [.atom (strToHex ix.name), .atom ix.table, names ix.cols])),
    .list (.atom "sreg" :: s.sreg.map (fun e => .list [.atom (strToHex e.1), .atom (strToHex e.2.name), .atom e.2.table, names e.2.cols]))]

def traceFrom (s : DState) : List DOp → List Sx
  | [] => []
  | op :: ops =>
    let r := step String.toUpper s op
    encState r.2 r.1 :: traceFrom r.1 ops

def handle : List Sx → Sx
  | [.atom "trace", .list ops] =>
    match ops.mapM decOp with
    | some os => .list (.atom "trace" :: traceFrom init os)
    | none => .atom "bad-request"
  | _ => .atom "bad-request"

def main : IO Unit := runDriver handle
