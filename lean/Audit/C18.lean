import VibeProof.Props.C18
#print axioms VibeProof.C18.C18_tag_roundtrip
#print axioms VibeProof.C18.C18_tag_injective
#print axioms VibeProof.C18.C18_tag_tables_agree
#print axioms VibeProof.C18.C18_value_roundtrip
#print axioms VibeProof.C18.C18_row_roundtrip
#print axioms VibeProof.C18.C18_rows_roundtrip
#print axioms VibeProof.C18.C18_table_data_roundtrip
#print axioms VibeProof.C18.C18_catalog_roundtrip
#print axioms VibeProof.C18.C18_file_roundtrip
#print axioms VibeProof.C18.C18_type_roundtrip_partial
#print axioms VibeProof.C18.C18_type_roundtrip_instances
#print axioms VibeProof.C18.C18_type_roundtrip_counterexample
#print axioms VibeProof.C18.C18_type_counterexamples
