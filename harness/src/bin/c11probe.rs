use vharness::*;
fn main() {
    let mut db = Db::new();
    for q in std::env::args().skip(1) {
        let o = db.exec(&q);
        println!("{} => {}", q, o.brief().chars().take(160).collect::<String>());
    }
    println!("T = {}", canon::rows_seq(&db.scan("T").unwrap_or_default()));
}
