import VibeProof.Model.Value
import VibeProof.Model.Rel
/-
Join algorithms of `select/join/`: hash build that skips NULL keys (`hash_join/build.rs`),
inner hash join with the smaller side as build side (`hash_join/inner.rs`), hash semi join
(`hash_semi_join.rs`), hash anti join (`hash_anti_join.rs`, which *emits* NULL-key probe rows),
and their definitional counterparts (nested loops, IN / NOT IN / [NOT] EXISTS truth values).

Key extraction is a function parameter (`Row → Value`), so the theorems hold for every key.
The engine's table maps a key to the *positions* of the build rows; the model stores the rows
themselves (position ↦ row is a bijection on the build side; `combine_rows` fetches by
position).
-/
namespace VibeProof.Join
open VibeProof

abbrev Table := List (Value × List Row)

/-- `hash_table.entry(key).or_default().push(idx)` -/
def addRow : Table → Value → Row → Table
  | [], v, r => [(v, [r])]
  | (w, rs) :: rest, v, r => if w = v then (w, rs ++ [r]) :: rest else (w, rs) :: addRow rest v r

/-- `build_hash_table_sequential`: NULL keys are skipped -/
def build (k : Row → Value) : List Row → Table → Table
  | [], t => t
  | r :: rs, t => if k r = .null then build k rs t else build k rs (addRow t (k r) r)

def lookup (t : Table) (v : Value) : List Row :=
  match t.find? (fun p => p.1 = v) with
  | some p => p.2
  | none => []

/-- `hash_join_inner`: build on the smaller side (left if `|left| ≤ |right|`), probe the other
in order, NULL probe keys skipped, output columns always `left ++ right` -/
def hashJoinInner (kl kr : Row → Value) (left right : List Row) : List Row :=
  if left.length ≤ right.length then
    let t := build kl left []
    right.flatMap (fun p => if kr p = .null then [] else (lookup t (kr p)).map (fun b => b ++ p))
  else
    let t := build kr right []
    left.flatMap (fun p => if kl p = .null then [] else (lookup t (kl p)).map (fun b => p ++ b))

/-- `hash_semi_join` -/
def hashSemi (kl kr : Row → Value) (left right : List Row) : List Row :=
  let t := build kr right []
  left.filter (fun l => kl l ≠ .null && !(lookup t (kl l)).isEmpty)

/-- `hash_anti_join`: a NULL probe key is *emitted* -/
def hashAnti (kl kr : Row → Value) (left right : List Row) : List Row :=
  let t := build kr right []
  left.filter (fun l => kl l = .null || (lookup t (kl l)).isEmpty)

/-! definitional counterparts -/

/-- `a = b` is TRUE (both non-NULL and equal) -/
def eqTrue (a b : Value) : Bool := a ≠ .null && b ≠ .null && a = b

def nestedLoop (kl kr : Row → Value) (left right : List Row) : List Row :=
  left.flatMap (fun l => (right.filter (fun r => eqTrue (kl l) (kr r))).map (fun r => l ++ r))

/-- `convert_not_in_null_aware` (subquery_to_join.rs): the anti join plus the guard
`(x IS NOT NULL AND no NULL in S) OR S is empty` -/
def notInNullAware (kl kr : Row → Value) (left right : List Row) : List Row :=
  (hashAnti kl kr left right).filter (fun l =>
    (kl l ≠ .null && !(right.any (fun r => kr r = .null))) || right.isEmpty)

/-- truth value of `x IN (S)` -/
def inTV (x : Value) (s : List Value) : TV :=
  if s.isEmpty then .f
  else if s.any (fun v => eqTrue x v) then .t
  else if x = .null || s.any (fun v => v = .null) then .u
  else .f

end VibeProof.Join
