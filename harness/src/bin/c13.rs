//! C13 — ROLLBACK restores exactly the state at BEGIN; COMMIT keeps the last state.
//!
//! Direct oracle (real engine only): observation before BEGIN (every table's rows, constraint
//! indexes, user-defined index data, list_tables, list_indexes, a full-scan query and
//! index-driven equality queries per indexed column) vs the observation after ROLLBACK, over
//! histories with DML, TRUNCATE, CREATE/DROP TABLE, CREATE/DROP INDEX and savepoints inside the
//! transaction; with COMMIT the observation after the last statement must be kept.
//! Correspondence: the whole history through the Lean table state machine (same driver as C15).
#[path = "c15/common.rs"]
mod common;
use common::*;
use std::collections::BTreeMap;
use vharness::*;


/// everything a client can observe; key -> canonical text
fn observe13(db: &mut Db, with_queries: bool) -> BTreeMap<String, String> {
    observe13x(db, with_queries, with_queries)
}

/// `ddl_probes`: CREATE/DROP INDEX probes on clones (not for disk-backed databases, whose clones
/// share the index files)
fn observe13x(db: &mut Db, with_queries: bool, ddl_probes: bool) -> BTreeMap<String, String> {
    let mut m = BTreeMap::new();
    let mut tables = db.db.list_tables();
    tables.sort();
    m.insert("list_tables".into(), format!("{:?}", tables));
    let mut idx: Vec<String> = db.db.list_indexes().iter().map(|s| s.to_uppercase()).collect();
    idx.sort();
    m.insert("list_indexes".into(), format!("{:?}", idx));
    // the catalog's view of the same schema objects
    let mut cat_idx: Vec<String> = db.db.catalog.list_all_indexes().iter().map(|i| format!("{}@{}", i.name.to_uppercase(), i.table_name)).collect();
    cat_idx.sort();
    m.insert("catalog_indexes".into(), format!("{:?}", cat_idx));
    // ... and what DDL on the index names does: creating an index of a known name / dropping it
    // must succeed or fail exactly as in the other state (probed on clones)
    if ddl_probes {
        let mut names: std::collections::BTreeSet<String> = idx.iter().cloned().collect();
        for i in db.db.catalog.list_all_indexes() {
            names.insert(i.name.to_uppercase());
        }
        for n in ["ZZ", "QV", "IX1", "PZ", "UW"] {
            names.insert(n.to_string());
        }
        for n in names {
            for t in &tables {
                let col = db.db.get_table(t).map(|x| x.schema.columns[0].name.clone()).unwrap_or_default();
                let mut probe = Db::from(db.db.clone());
                probe.keep_log = false;
                let o = probe.exec(&format!("CREATE INDEX {} ON {} ({})", n, t, col));
                m.insert(format!("create_index_again:{}:{}", n, t), if o.is_ok() { "ok".into() } else { format!("err {}", o.err_class().unwrap_or("panic")) });
            }
            let mut probe = Db::from(db.db.clone());
            probe.keep_log = false;
            let o = probe.exec(&format!("DROP INDEX {}", n));
            m.insert(format!("drop_index:{}", n), if o.is_ok() { "ok".into() } else { format!("err {}", o.err_class().unwrap_or("panic")) });
        }
    }
    for t in &tables {
        match observe(db, t) {
            Some(Ok(o)) => {
                m.insert(format!("rows:{}", t), format!("{:?}", o.rows));
                m.insert(format!("constraint_indexes:{}", t), format!("{:?}", o.hidx));
                m.insert(format!("user_index_data:{}", t), format!("{:?} prefix {:?}", o.uidx, o.pidx));
            }
            Some(Err(e)) => {
                m.insert(format!("rows:{}", t), format!("unreadable {}", e));
            }
            None => {
                m.insert(format!("rows:{}", t), "listed but not stored".into());
            }
        }
        if with_queries {
            let keep = db.keep_log;
            db.keep_log = false;
            let q = db.exec(&format!("SELECT * FROM {}", t));
            m.insert(format!("select:{}", t), match q.rows() { Some(r) => canon::rows_bag(r), None => q.brief() });
            // index-driven: equality on the first column of every user-defined index (c0..c3 are
            // the columns of T; small integer / string domain)
            let ncols = db.db.get_table(t).map(|x| x.schema.columns.len()).unwrap_or(0);
            for c in 0..ncols {
                let name = db.db.get_table(t).map(|x| x.schema.columns[c].name.clone()).unwrap_or_default();
                for v in ["0", "1", "2", "3", "5", "7", "'a'", "'b'"] {
                    let q = db.exec(&format!("SELECT * FROM {} WHERE {} = {}", t, name, v));
                    if let Some(r) = q.rows() {
                        if !r.is_empty() {
                            m.insert(format!("query:{}:{}={}", t, name, v), canon::rows_bag(r));
                        }
                    }
                }
            }
            db.keep_log = keep;
        }
    }
    m
}

fn diff(a: &BTreeMap<String, String>, b: &BTreeMap<String, String>) -> Vec<String> {
    let mut keys: Vec<&String> = a.keys().chain(b.keys()).collect();
    keys.sort();
    keys.dedup();
    keys.into_iter().filter(|k| a.get(*k) != b.get(*k)).cloned().collect()
}

struct TxnCase {
    schema: Schema,
    pre: Vec<Stmt>,
    body: Vec<Stmt>,
    commit: bool,
}

fn full_script(c: &TxnCase) -> String {
    let mut s = format!("{};\n", c.schema.create_sql());
    for st in &c.pre {
        s.push_str(&format!("{};\n", st.sql()));
    }
    s.push_str("-- observe here\nBEGIN;\n");
    for st in &c.body {
        s.push_str(&format!("{};\n", st.sql()));
    }
    s.push_str(if c.commit { "COMMIT;\n" } else { "ROLLBACK;\n-- observe again: must be equal\n" });
    s
}

fn run_txn_case(c: &TxnCase, model: &mut model::Model, rep: &mut Report, label: &str) {
    run_txn_case_on(c, model, rep, label, None)
}

/// `disk`: run on a database whose user-defined indexes spill to disk (memory budget 0 +
/// SpillToDisk, own directory); direct oracle only
fn run_txn_case_on(c: &TxnCase, model: &mut model::Model, rep: &mut Report, label: &str, disk: Option<std::path::PathBuf>) {
    let case_id = format!("{}{}", if disk.is_some() { "-- database with memory_budget 0 + SpillToDisk (disk-backed indexes)\n" } else { "" }, full_script(c));
    let on_disk = disk.is_some();
    let mut db = match &disk {
        None => Db::new(),
        Some(dir) => {
            let _ = std::fs::remove_dir_all(dir);
            let _ = std::fs::create_dir_all(dir);
            let cfg = vibesql_storage::database::DatabaseConfig {
                memory_budget: 0,
                spill_policy: vibesql_storage::database::SpillPolicy::SpillToDisk,
                ..Default::default()
            };
            Db::from(vibesql_storage::Database::with_path_and_config(dir.clone(), cfg))
        }
    };
    db.must(&c.schema.create_sql());
    for st in &c.pre {
        let _ = db.exec(&st.sql());
    }
    let before = observe13x(&mut db, true, !on_disk);
    if on_disk && before.values().any(|x| x.contains("disk backed")) {
        rep.count("disk_cases_with_a_disk_backed_index_at_begin");
    }
    if !db.exec("BEGIN").is_ok() {
        rep.fail(FailKind::Oracle, None, "BEGIN failed on a committed state", &case_id);
        return;
    }
    let mut index_ddl = false;
    let mut changed = 0;
    for st in &c.body {
        let pre_rows = scan_vals(&db, TABLE);
        let out = db.exec(&st.sql());
        rep.count(&format!("in_txn_{}", st.kind()));
        if out.is_panic() {
            rep.fail(FailKind::Oracle, None, "engine panicked inside the transaction", &format!("{}-- at: {} => {}", case_id, st.sql(), out.brief()));
            return;
        }
        if out.is_ok() {
            if matches!(st, Stmt::CreateIndex(..) | Stmt::CreatePrefixIndex(..) | Stmt::DropIndex(_)) {
                index_ddl = true;
            }
            if pre_rows != scan_vals(&db, TABLE) || matches!(st, Stmt::Raw(_) | Stmt::CreateIndex(..) | Stmt::DropIndex(_)) {
                changed += 1;
            }
        }
    }
    let last = observe13x(&mut db, true, !on_disk);
    let end = db.exec(if c.commit { "COMMIT" } else { "ROLLBACK" });
    if !end.is_ok() {
        rep.fail(FailKind::Oracle, None, "COMMIT/ROLLBACK of an open transaction failed", &format!("{}-- {}", case_id, end.brief()));
        return;
    }
    let after = observe13x(&mut db, true, !on_disk);
    rep.case(&case_id, changed >= 1 && (c.commit || before != last));
    rep.count(if c.commit { "ended_by_commit" } else { "ended_by_rollback" });
    if index_ddl {
        rep.count("cases_with_index_ddl_in_txn");
    }
    let want = if c.commit { &last } else { &before };
    let d = diff(want, &after);
    if !d.is_empty() {
        // (index DDL inside a transaction used to survive ROLLBACK — repaired by 650ff828; no
        // failure class is excused any more)
        let sig: Option<&str> = None;
        let mut detail = String::new();
        for k in &d {
            detail.push_str(&format!("-- {}:\n--   expected {}\n--   got      {}\n", k, want.get(k).cloned().unwrap_or("<absent>".into()), after.get(k).cloned().unwrap_or("<absent>".into())));
        }
        rep.fail(
            FailKind::Oracle,
            sig,
            if c.commit { "state after COMMIT differs from the state after the last statement" } else { "state after ROLLBACK differs from the state before BEGIN" },
            &format!("{}{}", case_id, detail),
        );
    }
    if let Some(dir) = &disk {
        rep.count("disk_backed_cases");
        let _ = std::fs::remove_dir_all(dir);
        return;
    }
    // correspondence: whole history through the model (T only)
    let mut stmts = c.pre.clone();
    stmts.push(Stmt::Begin);
    stmts.extend(c.body.iter().cloned());
    stmts.push(if c.commit { Stmt::Commit } else { Stmt::Rollback });
    run_case_opts(&Case { schema: c.schema.clone(), stmts }, model, rep, label, false);
}

/// statements that must FAIL inside a transaction without changing anything
fn refused_stmt(r: &mut Rng) -> Stmt {
    match r.below(6) {
        0 | 1 => Stmt::Begin, // nested BEGIN: "Transaction already active"
        2 => Stmt::Raw("CREATE SCHEMA s9".into()), // opens its own transaction: refused
        3 => Stmt::Raw("INSERT INTO nosuch VALUES (1)".into()),
        4 => Stmt::Raw("CREATE INDEX bad ON nosuch (a)".into()),
        _ => Stmt::Raw("DROP INDEX nosuchindex".into()),
    }
}

fn gen_txn_case(r: &mut Rng) -> TxnCase {
    let schema = gen_schema(r);
    let mut g = GenState::new();
    let pre_cfg = GenCfg { txn_weight: 0, savepoint_weight: 0, index_ddl_in_txn: true, len_lo: 2, len_hi: 8 };
    let mut pre = vec![];
    for _ in 0..r.range(0, 2) {
        pre.push(Stmt::CreateIndex(format!("p{}", pre.len()), vec![r.below(schema.ncols() as u64) as usize], false));
        g.idx_names.push(format!("p{}", pre.len() - 1));
    }
    for _ in 0..r.range(0, 5) {
        pre.push(Stmt::Insert(vec![gen_row(r, &schema, &mut g.next_id)]));
    }
    pre.extend(gen_stmts(r, &pre_cfg, &schema, &mut g));
    if r.chance(1, 2) {
        // an index created when the table has rows (this is what spills to disk under a zero budget)
        let c = r.below(schema.ncols() as u64) as usize;
        pre.push(Stmt::CreateIndex("pz".into(), vec![c], false));
        g.idx_names.push("pz".into());
    }
    if r.chance(1, 4) {
        // transaction control without a transaction: must fail and change nothing
        pre.push(Stmt::Raw((*r.pick(&["COMMIT", "ROLLBACK", "SAVEPOINT x"])).to_string()));
    }
    let body_cfg = GenCfg { txn_weight: 0, savepoint_weight: 8, index_ddl_in_txn: r.chance(1, 2), len_lo: 1, len_hi: 10 };
    g.in_txn = true;
    let mut body: Vec<Stmt> = gen_stmts(r, &body_cfg, &schema, &mut g);
    // other schema objects inside the transaction (a second table, with and without an index)
    if r.chance(1, 3) {
        let at = r.below(body.len() as u64 + 1) as usize;
        let mut extra = vec![Stmt::Raw("CREATE TABLE u (k INT PRIMARY KEY, w INT)".into())];
        if r.chance(2, 3) {
            extra.push(Stmt::Raw(format!("INSERT INTO u VALUES ({}, {})", r.range(0, 9), r.range(0, 9))));
        }
        if r.chance(1, 2) {
            extra.push(Stmt::Raw("CREATE INDEX uw ON u (w)".into()));
        }
        if r.chance(1, 3) {
            extra.push(Stmt::Raw("DROP TABLE u".into()));
        }
        for (k, e) in extra.into_iter().enumerate() {
            body.insert(at + k, e);
        }
    }
    // refused statements at every position (before / between / after the index DDL)
    let n_refused = r.range(0, 3);
    for _ in 0..n_refused {
        let at = r.below(body.len() as u64 + 1) as usize;
        body.insert(at, refused_stmt(r));
    }
    // DROP TABLE of the (possibly indexed) main table as the last statement
    if r.chance(1, 10) {
        body.push(Stmt::Raw("DROP TABLE t".into()));
    }
    TxnCase { schema, pre, body, commit: r.chance(1, 5) }
}

fn v(i: i64) -> Val {
    Val::Int(i)
}

fn probes() -> Vec<(&'static str, TxnCase)> {
    let s2 = Schema { kinds: vec![], int_col: vec![true, true], pk: true, uniques: vec![] };
    let pre = vec![
        Stmt::CreateIndex("qv".into(), vec![1], false),
        Stmt::Insert(vec![vec![v(1), v(1)]]),
        Stmt::Insert(vec![vec![v(2), v(2)]]),
        Stmt::Insert(vec![vec![v(3), v(2)]]),
    ];
    // index created AFTER the rows exist (a non-empty table is what makes it spill to disk)
    let late_index = vec![
        Stmt::Insert(vec![vec![v(1), v(1)]]),
        Stmt::Insert(vec![vec![v(2), v(2)]]),
        Stmt::Insert(vec![vec![v(3), v(2)]]),
        Stmt::CreateIndex("qz".into(), vec![1], false),
    ];
    vec![
        ("delete-in-txn", TxnCase { schema: s2.clone(), pre: pre.clone(), body: vec![Stmt::Delete(Pred::Cmp(0, "=", v(1)))], commit: false }),
        ("insert-update-in-txn", TxnCase { schema: s2.clone(), pre: pre.clone(), body: vec![Stmt::Insert(vec![vec![v(9), v(2)]]), Stmt::Update(vec![(1, SetE::Const(v(7)))], Pred::Cmp(1, "=", v(2)))], commit: false }),
        ("truncate-in-txn", TxnCase { schema: s2.clone(), pre: pre.clone(), body: vec![Stmt::Truncate, Stmt::Insert(vec![vec![v(1), v(5)]])], commit: false }),
        ("create-drop-table-in-txn", TxnCase { schema: s2.clone(), pre: pre.clone(), body: vec![Stmt::Raw("CREATE TABLE u (k INT PRIMARY KEY, w INT)".into()), Stmt::Raw("INSERT INTO u VALUES (1, 1)".into())], commit: false }),
        ("commit-keeps", TxnCase { schema: s2.clone(), pre: pre.clone(), body: vec![Stmt::Delete(Pred::Cmp(0, "=", v(1))), Stmt::Insert(vec![vec![v(9), v(2)]])], commit: true }),
        // an index changed and then dropped (or its table dropped) inside the transaction comes back
        // with the contents of BEGIN (matters for disk-backed index data, which ROLLBACK rebuilds)
        ("update-indexed-column-then-drop-index", TxnCase { schema: s2.clone(), pre: late_index.clone(), body: vec![Stmt::Update(vec![(1, SetE::Const(v(7)))], Pred::Cmp(0, "=", v(1))), Stmt::Delete(Pred::Cmp(0, "=", v(2))), Stmt::Insert(vec![vec![v(9), v(3)]]), Stmt::DropIndex("qz".into())], commit: false }),
        ("update-indexed-column-then-drop-table", TxnCase { schema: s2.clone(), pre: late_index.clone(), body: vec![Stmt::Update(vec![(1, SetE::Const(v(7)))], Pred::Cmp(0, "=", v(1))), Stmt::Raw("DROP TABLE t".into())], commit: false }),
        // a refused BEGIN / CREATE SCHEMA inside the transaction must not disturb what ROLLBACK restores
        ("create-index-then-nested-begin", TxnCase { schema: s2.clone(), pre: pre.clone(), body: vec![Stmt::CreateIndex("zz".into(), vec![0, 1], false), Stmt::Begin], commit: false }),
        ("drop-index-then-create-schema", TxnCase { schema: s2.clone(), pre: pre.clone(), body: vec![Stmt::DropIndex("qv".into()), Stmt::Raw("CREATE SCHEMA s9".into()), Stmt::Insert(vec![vec![v(9), v(2)]])], commit: false }),
        ("new-table-with-index-then-nested-begin", TxnCase { schema: s2.clone(), pre: pre.clone(), body: vec![Stmt::Raw("CREATE TABLE u (k INT PRIMARY KEY, w INT)".into()), Stmt::Raw("INSERT INTO u VALUES (1, 1)".into()), Stmt::Raw("CREATE INDEX uw ON u (w)".into()), Stmt::Begin], commit: false }),
        ("drop-indexed-table-then-nested-begin", TxnCase { schema: s2.clone(), pre: pre.clone(), body: vec![Stmt::Raw("DROP TABLE t".into()), Stmt::Begin], commit: false }),
        ("nested-begin-before-index-ddl", TxnCase { schema: s2.clone(), pre: pre.clone(), body: vec![Stmt::Begin, Stmt::CreateIndex("zz".into(), vec![0], false)], commit: false }),
        // repaired defect e166b44f: a table created, filled, indexed and dropped after a savepoint
        ("rollback-to-after-create-and-drop-table", TxnCase { schema: s2.clone(), pre: vec![], body: vec![Stmt::Insert(vec![vec![v(5), v(7)]]), Stmt::Savepoint("a".into()), Stmt::Raw("CREATE TABLE u (k INT PRIMARY KEY, w INT)".into()), Stmt::Raw("INSERT INTO u VALUES (2, 5)".into()), Stmt::Raw("CREATE INDEX uw ON u (w)".into()), Stmt::Raw("DROP TABLE u".into()), Stmt::Insert(vec![vec![v(7), v(1)]]), Stmt::RollbackTo("a".into())], commit: false }),
        // repaired defect 650ff828, kept as regression probes
        ("create-index-in-txn (regression: 650ff828)", TxnCase { schema: s2.clone(), pre: pre.clone(), body: vec![Stmt::CreateIndex("zz".into(), vec![0, 1], false)], commit: false }),
        ("drop-index-in-txn (regression: 650ff828)", TxnCase { schema: s2.clone(), pre: pre.clone(), body: vec![Stmt::DropIndex("qv".into())], commit: false }),
    ]
}

fn main() {
    engine::silence_panics();
    let args = Args::parse("C13");
    let mut rep = Report::new(
        &args,
        "case = (committed pre-state built by a random history, statements executed between BEGIN and ROLLBACK/COMMIT); \
         observation = rows, constraint indexes, user-defined index data of every table, list_tables, list_indexes, SELECT * and \
         equality queries on every column; non-trivial = the transaction changed something observable (for ROLLBACK: the state \
         just before ROLLBACK differs from the state at BEGIN); distinct by script",
    );
    rep.assumptions.push("one main table T (plus a second table U created/dropped inside the transaction); in-memory index backend".into());
    rep.assumptions.push("sequences, views, triggers, roles are not created inside the transactions (catalog snapshot covers them alike)".into());
    let mut model = args.model();
    for (name, c) in probes() {
        run_txn_case(&c, &mut model, &mut rep, name);
        run_txn_case_on(&c, &mut model, &mut rep, name, Some(args.scratch.join("probe_db")));
        rep.count("probe_cases");
    }
    let mut rng = Rng::new(args.seed);
    let n = args.n(220, 15000);
    for i in 0..n {
        let mut r = rng.fork();
        let c = gen_txn_case(&mut r);
        if i < 3 {
            rep.sample(serde_json::json!({"script": full_script(&c)}));
        }
        run_txn_case(&c, &mut model, &mut rep, "generated");
        if i % 3 == 0 {
            run_txn_case_on(&c, &mut model, &mut rep, "generated, disk-backed indexes", Some(args.scratch.join(format!("db{}", i))));
        }
    }
    std::process::exit(rep.finish());
}
