import VibeProof.Model.Temporal
import VibeProof.Lemmas.TemporalNum
/-
C22 — temporal values round-trip through text and parsing is total.
Model: Model/Temporal.lean (the repaired parsers: de528fa2, 0606ba2f, d3639607).
-/
namespace VibeProof.C22
open VibeProof.Temporal

/-! ## totality: no byte string makes a parser panic -/

def NoPanic {α : Type} (r : R α) : Prop := r ≠ .error .panic

theorem noPanic_ok {α : Type} (x : α) : NoPanic (Except.ok x : R α) := by simp [NoPanic]
theorem noPanic_pure {α : Type} (x : α) : NoPanic (pure x : R α) := by simp [NoPanic, pure, Except.pure]
theorem noPanic_err {α : Type} : NoPanic (Except.error .err : R α) := by simp [NoPanic]

theorem noPanic_bind {α β : Type} {r : R α} {f : α → R β}
    (h1 : NoPanic r) (h2 : ∀ x, r = .ok x → NoPanic (f x)) : NoPanic (r >>= f) := by
  cases r with
  | ok x => exact h2 x rfl
  | error e =>
    cases e with
    | err => simp [NoPanic, bind, Except.bind]
    | panic => exact absurd rfl h1

theorem noPanic_orErr {α : Type} (o : Option α) : NoPanic (orErr o) := by
  cases o <;> simp [orErr, NoPanic]

theorem idx_lt {α : Type} {l : List α} {i : Nat} (h : i < l.length) : idx l i = .ok l[i] := by
  simp [idx, h]

theorem noPanic_idx {α : Type} {l : List α} {i : Nat} (h : i < l.length) : NoPanic (idx l i) := by
  rw [idx_lt h]; exact noPanic_ok _

theorem Date.new_noPanic (y : Int) (m d : Nat) : NoPanic (Date.new y m d) := by
  unfold Date.new; split
  · exact noPanic_err
  · split
    · exact noPanic_err
    · exact noPanic_ok _

theorem Time.new_noPanic (h mi s n : Nat) : NoPanic (Time.new h mi s n) := by
  unfold Time.new
  repeat (first | exact noPanic_err | exact noPanic_ok _ | split)

/-- `Date::from_str` never panics -/
theorem C22_date_total (s : Bytes) : NoPanic (Date.fromStr s) := by
  unfold Date.fromStr
  simp only []
  split
  · exact noPanic_err
  · rename_i h
    have h3 : (rsplit3 45 s).length = 3 := by simpa using h
    refine noPanic_bind (noPanic_idx (by omega)) (fun _ _ => ?_)
    refine noPanic_bind (noPanic_orErr _) (fun y _ => ?_)
    refine noPanic_bind (noPanic_idx (by omega)) (fun _ _ => ?_)
    refine noPanic_bind (noPanic_orErr _) (fun m _ => ?_)
    refine noPanic_bind (noPanic_idx (by omega)) (fun _ _ => ?_)
    refine noPanic_bind (noPanic_orErr _) (fun d _ => ?_)
    exact Date.new_noPanic y m d

theorem parseNanos_noPanic (f : Bytes) : NoPanic (parseNanos f) := by
  unfold parseNanos; split
  · exact noPanic_err
  · exact noPanic_orErr _

theorem time_core_noPanic (timePart : Bytes) (frac : Option Bytes) :
    NoPanic (if ((splitOn 58 timePart).length != 3) = true then (Except.error Fail.err : R Time)
      else do
        let h ← orErr (parseU8 (← idx (splitOn 58 timePart) 0))
        let mi ← orErr (parseU8 (← idx (splitOn 58 timePart) 1))
        let sec ← orErr (parseU8 (← idx (splitOn 58 timePart) 2))
        let n ← match frac with
          | some f => parseNanos f
          | none => pure 0
        Time.new h mi sec n) := by
  split
  · exact noPanic_err
  · rename_i h
    have h3 : (splitOn 58 timePart).length = 3 := by simpa using h
    refine noPanic_bind (noPanic_idx (by omega)) (fun _ _ => ?_)
    refine noPanic_bind (noPanic_orErr _) (fun hh _ => ?_)
    refine noPanic_bind (noPanic_idx (by omega)) (fun _ _ => ?_)
    refine noPanic_bind (noPanic_orErr _) (fun mi _ => ?_)
    refine noPanic_bind (noPanic_idx (by omega)) (fun _ _ => ?_)
    refine noPanic_bind (noPanic_orErr _) (fun sec _ => ?_)
    cases frac with
    | some f => exact noPanic_bind (parseNanos_noPanic f) (fun n _ => Time.new_noPanic hh mi sec n)
    | none => exact noPanic_bind (noPanic_pure _) (fun n _ => Time.new_noPanic hh mi sec n)

/-- `Time::from_str` never panics -/
theorem C22_time_total (s : Bytes) : NoPanic (Time.fromStr s) := by
  unfold Time.fromStr
  cases splitFirst 46 s with
  | none => exact time_core_noPanic s none
  | some p => exact time_core_noPanic p.1 (some p.2)

theorem noPanic_first {s : Bytes} (h : s ≠ []) : NoPanic (first s) := by
  cases s with
  | nil => exact absurd rfl h
  | cons b r => exact noPanic_ok _

theorem isTimezoneOffset_noPanic (s : Bytes) : NoPanic (isTimezoneOffset s) := by
  unfold isTimezoneOffset
  split
  · exact noPanic_ok _
  · rename_i hl
    have hne : s ≠ [] := by intro h; simp [h] at hl
    split
    · rename_i e he
      cases s with
      | nil => exact absurd rfl hne
      | cons b r => simp [first] at he
    · repeat (first | exact noPanic_ok _ | split)

theorem stripTimezoneSuffix_noPanic (s : Bytes) : NoPanic (stripTimezoneSuffix s) := by
  unfold stripTimezoneSuffix
  split
  · exact noPanic_ok _
  · split
    · split
      · split
        · exact noPanic_ok _
        · exact noPanic_ok _
        · rename_i e he
          have := isTimezoneOffset_noPanic (‹UInt8› :: ‹Bytes›)
          cases e with
          | err => exact noPanic_err
          | panic => exact absurd he this
      · exact noPanic_ok _
    · exact noPanic_ok _

theorem tsFromParts_noPanic (parts : List Bytes) : NoPanic (tsFromParts parts) := by
  unfold tsFromParts
  split
  · rename_i h
    have h2 : parts.length = 2 := by simpa using h
    refine noPanic_bind (noPanic_idx (by omega)) (fun _ _ => ?_)
    refine noPanic_bind (C22_date_total _) (fun d _ => ?_)
    refine noPanic_bind (noPanic_idx (by omega)) (fun _ _ => ?_)
    refine noPanic_bind (C22_time_total _) (fun t _ => ?_)
    exact noPanic_pure _
  · split
    · rename_i h
      have h1 : parts.length = 1 := by simpa using h
      refine noPanic_bind (noPanic_idx (by omega)) (fun p _ => ?_)
      have := C22_date_total p
      split
      · exact noPanic_pure _
      · rename_i hp; exact absurd hp this
      · exact noPanic_err
    · exact noPanic_err

/-- `Timestamp::from_str` never panics -/
theorem C22_timestamp_total (s : Bytes) : NoPanic (Timestamp.fromStr s) := by
  unfold Timestamp.fromStr
  refine noPanic_bind (stripTimezoneSuffix_noPanic _) (fun part _ => ?_)
  split
  · refine noPanic_bind (C22_date_total _) (fun d _ => ?_)
    refine noPanic_bind (C22_time_total _) (fun t _ => ?_)
    exact noPanic_pure _
  · exact tsFromParts_noPanic _

theorem parseCompound_noPanic (parts : List Bytes) (toPos : Nat) :
    NoPanic (parseCompound parts toPos) := by
  unfold parseCompound
  split
  · rename_i h
    have hh : 2 ≤ toPos ∧ toPos + 1 < parts.length := by simpa using h
    refine noPanic_bind (noPanic_idx (by omega)) (fun v _ => ?_)
    refine noPanic_bind (noPanic_idx (by omega)) (fun f _ => ?_)
    refine noPanic_bind (noPanic_idx (by omega)) (fun t _ => ?_)
    repeat (first | exact noPanic_pure _ | split)
  · exact noPanic_pure _

theorem parseSimple_noPanic (parts : List Bytes) : NoPanic (parseSimple parts) := by
  unfold parseSimple
  split
  · rename_i h
    have hh : 2 ≤ parts.length := by simpa using h
    refine noPanic_bind (noPanic_idx (by omega)) (fun v _ => ?_)
    refine noPanic_bind (noPanic_idx (by omega)) (fun u _ => ?_)
    simp only []
    repeat (first | exact noPanic_pure _ | split)
  · exact noPanic_pure _

theorem parseInterval_noPanic (s : Bytes) : NoPanic (parseInterval s) := by
  unfold parseInterval
  simp only []
  split
  · exact noPanic_ok _
  · split
    · exact parseCompound_noPanic _ _
    · exact parseSimple_noPanic _

/-- `Interval::new` (and `Interval::from_str`) never panics -/
theorem C22_interval_total (s : Bytes) : NoPanic (Interval.new s) := by
  unfold Interval.new
  refine noPanic_bind (parseInterval_noPanic s) (fun p _ => ?_)
  exact noPanic_pure _

/-- the full statement of totality, all four parsers -/
theorem C22_total (s : Bytes) :
    NoPanic (Date.fromStr s) ∧ NoPanic (Time.fromStr s) ∧ NoPanic (Timestamp.fromStr s) ∧
    NoPanic (Interval.new s) :=
  ⟨C22_date_total s, C22_time_total s, C22_timestamp_total s, C22_interval_total s⟩

/-! ## round trips -/

/-- INTERVAL: `Display` prints the stored text, so re-parsing gives the same interval -/
theorem C22_interval_roundtrip (s : Bytes) (i : Interval) (h : Interval.new s = .ok i) :
    Interval.new i.display = .ok i := by
  have ht : i.text = s := by
    unfold Interval.new at h
    cases hp : parseInterval s with
    | error e => simp [hp, bind, Except.bind] at h
    | ok p =>
      obtain ⟨a, b, c⟩ := p
      simp [hp, bind, Except.bind, pure, Except.pure] at h
      rw [← h]
  simp [Interval.display, ht, h]

example : Interval.new [49, 45, 54, 32, 89, 69, 65, 82, 32, 84, 79, 32, 77, 79, 78, 84, 72] =
    .ok ⟨[49, 45, 54, 32, 89, 69, 65, 82, 32, 84, 79, 32, 77, 79, 78, 84, 72], 18, 0, 0⟩ := by rfl

/-- DATE: every value accepted by `Date::new` (any `i32` year, negative ones included)
    prints to a text that parses back to the same value -/
theorem C22_date_roundtrip (y : Int) (m dd : Nat) (d : Date) (hy : i32Min ≤ y ∧ y ≤ i32Max)
    (h : Date.new y m dd = .ok d) : Date.fromStr d.display = .ok d := by
  have hv : (1 ≤ m ∧ m ≤ 12) ∧ (1 ≤ dd ∧ dd ≤ 31) ∧ d = ⟨y, m, dd⟩ := by
    unfold Date.new at h
    split at h
    · simp at h
    · split at h
      · simp at h
      · rename_i h1 h2
        simp at h1 h2 h
        exact ⟨⟨by omega, h1.2⟩, ⟨by omega, h2.2⟩, h.symm⟩
  obtain ⟨hm, hd, rfl⟩ := hv
  unfold Date.fromStr Date.display
  simp only []
  rw [rsplit3_date _ _ _ (fmtNat_all 2 m) (fmtNat_all 2 dd)]
  simp only [List.length_cons, List.length_nil, idx, bne_self_eq_false, Bool.false_eq_true, if_false,
    List.getElem?_cons_zero, List.getElem?_cons_succ, bind, Except.bind]
  rw [show parseI32 (fmtInt 4 y) = some y from parseSigned_fmtInt _ _ 4 y hy.1 hy.2,
      show parseU8 (fmtNat 2 m) = some m from parseUnsigned_fmtNat 255 2 m (by omega),
      show parseU8 (fmtNat 2 dd) = some dd from parseUnsigned_fmtNat 255 2 dd (by omega)]
  simp only [orErr]
  unfold Date.new
  simp [hm, hd]

example : Date.new (-5) 1 1 = .ok ⟨-5, 1, 1⟩ ∧ i32Min ≤ (-5 : Int) ∧ (-5 : Int) ≤ i32Max :=
  ⟨rfl, by decide, by decide⟩
