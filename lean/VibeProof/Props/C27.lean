import VibeProof.Model.Wire
import VibeProof.Lemmas.Wire
import VibeProof.Generated.Consts
/-
C27 — Wire-protocol message decoding is safe and respects framing.

Model: `VibeProof.Wire.decode`, `decodeStartup`, `readCString` (Model/Wire.lean), a
transliteration of `FrontendMessage::decode / decode_startup / read_cstring` of
crates/vibesql-server/src/protocol/messages.rs *after* the repair (`fix:` commit 39d592c4:
length field validated, body parsed inside `split_to(len)`).  Every cursor operation of the
`bytes` crate keeps its panic outcome in the model; the theorems show the panics unreachable.

All statements are for every byte list, of any length.
-/
namespace VibeProof.C27
open VibeProof.Wire

/-! ### (i) never panics -/

/-- classification of every call of `decode`: need-more with the buffer untouched, a length
    error with the buffer untouched, or exactly one declared frame taken off the buffer and a
    message or an error returned -/
theorem decode_spec (b : Bytes) :
    decode b = .needMore ∨
    (∃ L, declaredLen b = some L ∧ L < 4 ∧ decode b = .error .messageTooShort b) ∨
    (∃ frame rest L, b = frame ++ rest ∧ declaredLen b = some L ∧ 4 ≤ L ∧
      (frame.length : Int) = 1 + L ∧
      ((∃ m, decode b = .msg m rest) ∨ (∃ e, decode b = .error e rest))) := by
  by_cases hs : b.length < 5
  · exact Or.inl (decode_short b hs)
  · obtain ⟨ty, b1, b2, b3, b4, tl, rfl⟩ := five_cons b hs
    rw [decode_closed, declaredLen_cons]
    generalize i32OfBytes b1 b2 b3 b4 = L
    by_cases h4 : L < 4
    · exact Or.inr (Or.inl ⟨L, rfl, h4, by rw [if_pos h4]⟩)
    · rw [if_neg h4]
      by_cases hl : tl.length + 4 < L.toNat
      · exact Or.inl (by rw [if_pos hl])
      · rw [if_neg hl]
        have h4' : 4 ≤ L := by omega
        exact Or.inr (Or.inr ⟨ty :: b1 :: b2 :: b3 :: b4 :: tl.take (L.toNat - 4),
          tl.drop (L.toNat - 4), L, split_eq5 _ _ _ _ _ _ _, rfl, h4',
          frame_len5 _ _ _ _ _ _ _ h4' hl, decodeBody_cases _ _ _⟩)

theorem decodeStartup_spec (b : Bytes) :
    decodeStartup b = .needMore ∨
    (∃ L, declaredLenStartup b = some L ∧ L < 8 ∧ decodeStartup b = .error .messageTooShort b) ∨
    (∃ frame rest L, b = frame ++ rest ∧ declaredLenStartup b = some L ∧ 8 ≤ L ∧
      (frame.length : Int) = L ∧
      ((∃ m, decodeStartup b = .msg m rest) ∨ (∃ e, decodeStartup b = .error e rest))) := by
  by_cases hs : b.length < 4
  · exact Or.inl (decodeStartup_short b hs)
  · obtain ⟨b0, b1, b2, b3, tl, rfl⟩ := four_cons b hs
    rw [decodeStartup_closed, declaredLenStartup_cons]
    generalize i32OfBytes b0 b1 b2 b3 = L
    by_cases h8 : L < 8
    · exact Or.inr (Or.inl ⟨L, rfl, h8, by rw [if_pos h8]⟩)
    · rw [if_neg h8]
      by_cases hl : tl.length + 4 < L.toNat
      · exact Or.inl (by rw [if_pos hl])
      · rw [if_neg hl]
        have h8' : 8 ≤ L := by omega
        exact Or.inr (Or.inr ⟨b0 :: b1 :: b2 :: b3 :: tl.take (L.toNat - 4),
          tl.drop (L.toNat - 4), L, split_eq4 _ _ _ _ _ _, rfl, h8',
          frame_len4 _ _ _ _ _ _ (by omega) hl,
          startupBody_cases _ _ (take_len_ge4 tl L h8' hl)⟩)

/-- (i) `FrontendMessage::decode` never panics, whatever the bytes (negative, short, oversized
    length fields, missing terminators, invalid UTF-8 …) -/
theorem C27_decode_no_panic (b : Bytes) (k : PanicKind) : decode b ≠ .panic k := by
  rcases decode_spec b with h | ⟨_, _, _, h⟩ | ⟨_, _, _, _, _, _, _, ⟨_, h⟩ | ⟨_, h⟩⟩ <;>
    rw [h] <;> simp

/-- (i) `decode_startup` never panics and its parameter loop terminates (the fuel of the model
    loop, `panic fuel`, is never exhausted) -/
theorem C27_startup_no_panic (b : Bytes) (k : PanicKind) : decodeStartup b ≠ .panic k := by
  rcases decodeStartup_spec b with h | ⟨_, _, _, h⟩ | ⟨_, _, _, _, _, _, _, ⟨_, h⟩ | ⟨_, h⟩⟩ <;>
    rw [h] <;> simp

/-! ### (ii) exactly the declared frame is consumed -/

/-- (ii) a decoded message consumed exactly `1 + declared length` bytes: the buffer is the frame
    followed by the bytes left over, which are untouched -/
theorem C27_decode_frame_bound (b : Bytes) (m : FrontendMsg) (rest : Bytes)
    (h : decode b = .msg m rest) :
    ∃ frame L, b = frame ++ rest ∧ declaredLen b = some L ∧ 4 ≤ L ∧
      (frame.length : Int) = 1 + L := by
  rcases decode_spec b with h' | ⟨_, _, _, h'⟩ | ⟨frame, rest', L, hb, hd, h4, hl, ⟨_, h'⟩ | ⟨_, h'⟩⟩
  · rw [h'] at h; simp at h
  · rw [h'] at h; simp at h
  · rw [h'] at h
    simp only [Outcome.msg.injEq] at h
    obtain ⟨_, rfl⟩ := h
    exact ⟨frame, L, hb, hd, h4, hl⟩
  · rw [h'] at h; simp at h

/-- (ii) an error leaves the buffer untouched (bad length field) or has consumed exactly the
    declared frame (bad body / unknown type) — never more -/
theorem C27_decode_error_bound (b : Bytes) (e : ProtoErr) (rest : Bytes)
    (h : decode b = .error e rest) :
    rest = b ∨ ∃ frame L, b = frame ++ rest ∧ declaredLen b = some L ∧ 4 ≤ L ∧
      (frame.length : Int) = 1 + L := by
  rcases decode_spec b with h' | ⟨_, _, _, h'⟩ | ⟨frame, rest', L, hb, hd, h4, hl, ⟨_, h'⟩ | ⟨_, h'⟩⟩
  · rw [h'] at h; simp at h
  · rw [h'] at h
    simp only [Outcome.error.injEq] at h
    exact Or.inl h.2.symm
  · rw [h'] at h; simp at h
  · rw [h'] at h
    simp only [Outcome.error.injEq] at h
    obtain ⟨_, rfl⟩ := h
    exact Or.inr ⟨frame, L, hb, hd, h4, hl⟩

theorem C27_startup_frame_bound (b : Bytes) (m : FrontendMsg) (rest : Bytes)
    (h : decodeStartup b = .msg m rest) :
    ∃ frame L, b = frame ++ rest ∧ declaredLenStartup b = some L ∧ 8 ≤ L ∧
      (frame.length : Int) = L := by
  rcases decodeStartup_spec b with h' | ⟨_, _, _, h'⟩ | ⟨frame, rest', L, hb, hd, h4, hl, ⟨_, h'⟩ | ⟨_, h'⟩⟩
  · rw [h'] at h; simp at h
  · rw [h'] at h; simp at h
  · rw [h'] at h
    simp only [Outcome.msg.injEq] at h
    obtain ⟨_, rfl⟩ := h
    exact ⟨frame, L, hb, hd, h4, hl⟩
  · rw [h'] at h; simp at h

theorem C27_startup_error_bound (b : Bytes) (e : ProtoErr) (rest : Bytes)
    (h : decodeStartup b = .error e rest) :
    rest = b ∨ ∃ frame L, b = frame ++ rest ∧ declaredLenStartup b = some L ∧ 8 ≤ L ∧
      (frame.length : Int) = L := by
  rcases decodeStartup_spec b with h' | ⟨_, _, _, h'⟩ | ⟨frame, rest', L, hb, hd, h4, hl, ⟨_, h'⟩ | ⟨_, h'⟩⟩
  · rw [h'] at h; simp at h
  · rw [h'] at h
    simp only [Outcome.error.injEq] at h
    exact Or.inl h.2.symm
  · rw [h'] at h; simp at h
  · rw [h'] at h
    simp only [Outcome.error.injEq] at h
    obtain ⟨_, rfl⟩ := h
    exact Or.inr ⟨frame, L, hb, hd, h4, hl⟩

/-- need-more is returned exactly when the header or the declared frame is incomplete -/
theorem C27_decode_need_more_iff (b : Bytes) :
    decode b = .needMore ↔
      b.length < 5 ∨ ∃ L, declaredLen b = some L ∧ 4 ≤ L ∧ (b.length : Int) < 1 + L := by
  by_cases hs : b.length < 5
  · exact ⟨fun _ => Or.inl hs, fun _ => decode_short b hs⟩
  · obtain ⟨ty, b1, b2, b3, b4, tl, rfl⟩ := five_cons b hs
    rw [decode_closed, declaredLen_cons]
    generalize i32OfBytes b1 b2 b3 b4 = L
    have hlen : ((ty :: b1 :: b2 :: b3 :: b4 :: tl).length : Int) = tl.length + 5 := by
      simp only [List.length_cons]; omega
    rw [hlen]
    by_cases h4 : L < 4
    · rw [if_pos h4]
      constructor
      · intro h; exact absurd h (by simp)
      · rintro (h | ⟨L', hL, h4', _⟩)
        · exact absurd h hs
        · simp only [Option.some.injEq] at hL; omega
    · rw [if_neg h4]
      by_cases hl : tl.length + 4 < L.toNat
      · rw [if_pos hl]
        exact ⟨fun _ => Or.inr ⟨L, rfl, by omega, by omega⟩, fun _ => rfl⟩
      · rw [if_neg hl]
        constructor
        · intro h
          rcases decodeBody_cases ty (tl.take (L.toNat - 4)) (tl.drop (L.toNat - 4)) with
            ⟨_, h'⟩ | ⟨_, h'⟩ <;> rw [h'] at h <;> exact absurd h (by simp)
        · rintro (h | ⟨L', hL, h4', hlt⟩)
          · exact absurd h hs
          · simp only [Option.some.injEq] at hL; omega

/-! ### (iii) decoding an encoding gives the message back and leaves the tail untouched -/

theorem decode_string_frame (ty : UInt8) (s rest : Bytes)
    (hl : 4 + (s.length + 1) < 2147483648) :
    decode (ty :: (be32 (4 + (s.length + 1)) ++ cstr s) ++ rest) =
      decodeBody ty (s ++ [0]) rest := by
  have e : ty :: (be32 (4 + (s.length + 1)) ++ cstr s) ++ rest =
      ty :: UInt8.ofNat ((4 + (s.length + 1)) / 16777216 % 256) ::
        UInt8.ofNat ((4 + (s.length + 1)) / 65536 % 256) ::
        UInt8.ofNat ((4 + (s.length + 1)) / 256 % 256) ::
        UInt8.ofNat ((4 + (s.length + 1)) % 256) :: ((s ++ [0]) ++ rest) := by
    simp [be32, cstr]
  rw [e, decode_closed, i32OfBytes_ofNat _ hl]
  rw [if_neg (by omega), if_neg (by simp only [List.length_append, List.length_cons, List.length_nil]; omega)]
  have h1 : ((4 + (s.length + 1) : Nat) : Int).toNat - 4 = (s ++ [0]).length := by
    simp only [List.length_append, List.length_cons, List.length_nil]; omega
  rw [h1, List.take_left' rfl, List.drop_left' rfl]

/-- (iii) regular messages: `decode (encode m ++ rest) = msg m rest` -/
theorem C27_decode_roundtrip (m : FrontendMsg) (rest : Bytes) (hw : wfMsg m) :
    decode (encodeFrontend m ++ rest) = .msg m rest := by
  cases m with
  | query q =>
    obtain ⟨hs, hl⟩ := hw
    have := decode_string_frame 0x51 q rest hl
    simp only [encodeFrontend]
    rw [this]
    have hr : readCString (q ++ [0]) = .ok (q, []) := readCString_append [] hs
    simp [decodeBody, hr]
  | password p =>
    obtain ⟨hs, hl⟩ := hw
    have := decode_string_frame 0x70 p rest hl
    simp only [encodeFrontend]
    rw [this]
    have hr : readCString (p ++ [0]) = .ok (p, []) := readCString_append [] hs
    simp [decodeBody, hr]
  | terminate =>
    have e : encodeFrontend .terminate ++ rest = 0x58 :: 0 :: 0 :: 0 :: 4 :: rest := by
      simp [encodeFrontend, be32]
    rw [e, decode_closed]
    have h4 : i32OfBytes 0 0 0 4 = 4 := by decide
    rw [h4]
    simp [decodeBody]
  | startup _ _ => exact absurd hw (by simp [wfMsg])
  | sslRequest => exact absurd hw (by simp [wfMsg])

/-- (iii) startup packets: `decodeStartup (encodeStartup m ++ rest) = msg m rest` -/
theorem C27_startup_roundtrip (m : FrontendMsg) (rest : Bytes) (hw : wfStartup m) :
    decodeStartup (encodeStartup m ++ rest) = .msg m rest := by
  cases m with
  | startup v ps =>
    obtain ⟨hv1, hv2, hssl, hps, hl⟩ := hw
    obtain ⟨a, b, c, d, hbe, hi⟩ := i32OfBytes_be32i v hv1 hv2
    have hN : 8 + (encodeParams ps ++ [0]).length < 2147483648 := by
      simp only [List.length_append, List.length_cons, List.length_nil]; omega
    have e : encodeStartup (.startup v ps) ++ rest =
        UInt8.ofNat ((8 + (encodeParams ps ++ [0]).length) / 16777216 % 256) ::
        UInt8.ofNat ((8 + (encodeParams ps ++ [0]).length) / 65536 % 256) ::
        UInt8.ofNat ((8 + (encodeParams ps ++ [0]).length) / 256 % 256) ::
        UInt8.ofNat ((8 + (encodeParams ps ++ [0]).length) % 256) ::
          ((a :: b :: c :: d :: (encodeParams ps ++ [0])) ++ rest) := by
      simp [encodeStartup, be32, hbe]
    rw [e, decodeStartup_closed, i32OfBytes_ofNat _ hN]
    rw [if_neg (by omega), if_neg (by simp only [List.length_append, List.length_cons, List.length_nil]; omega)]
    have h1 : ((8 + (encodeParams ps ++ [0]).length : Nat) : Int).toNat - 4 =
        (a :: b :: c :: d :: (encodeParams ps ++ [0])).length := by
      simp only [List.length_append, List.length_cons, List.length_nil]; omega
    rw [h1, List.take_left' rfl, List.drop_left' rfl]
    unfold startupBody
    simp only [getI32, hi, hssl, if_false]
    have hrp := readParams_encode ps ((encodeParams ps ++ [0]).length + 1) [] [] hps
      (by intro k _; simp [keysOf])
      (by simp only [List.length_append, List.length_cons, List.length_nil]; omega)
    have e2 : encodeParams ps ++ [0] = encodeParams ps ++ 0 :: [] := rfl
    rw [← e2] at hrp
    rw [hrp]
    simp
  | sslRequest =>
    have e : encodeStartup .sslRequest ++ rest = 0 :: 0 :: 0 :: 8 :: 4 :: 210 :: 22 :: 47 :: rest := by
      simp [encodeStartup, be32, be32i, sslRequestCode]
    rw [e, decodeStartup_closed]
    have h8 : i32OfBytes 0 0 0 8 = 8 := by decide
    rw [h8]
    have hs : i32OfBytes 4 210 22 47 = sslRequestCode := by decide
    simp [startupBody, getI32, hs]
  | query _ => exact absurd hw (by simp [wfStartup])
  | password _ => exact absurd hw (by simp [wfStartup])
  | terminate => exact absurd hw (by simp [wfStartup])

/-- the declared length of a buffer is fixed by its first five bytes -/
theorem declaredLen_take (b : Bytes) (k : Nat) (hk : 5 ≤ k) : declaredLen (b.take k) = declaredLen b := by
  by_cases hs : b.length < 5
  · rw [List.take_of_length_le (by omega)]
  · obtain ⟨ty, b1, b2, b3, b4, tl, rfl⟩ := five_cons b hs
    obtain ⟨j, rfl⟩ : ∃ j, k = j + 5 := ⟨k - 5, by omega⟩
    rfl

/-- every strict prefix of a frame asks for more bytes (and consumes nothing) -/
theorem C27_decode_prefix_need_more (m : FrontendMsg) (rest : Bytes) (hw : wfMsg m) (k : Nat)
    (hk : k < (encodeFrontend m).length) :
    decode ((encodeFrontend m ++ rest).take k) = .needMore := by
  have hrt := C27_decode_roundtrip m [] hw
  rw [List.append_nil] at hrt
  obtain ⟨frame, L, hb, hd, h4, hl⟩ := C27_decode_frame_bound _ _ _ hrt
  rw [List.append_nil] at hb
  have htake : (encodeFrontend m ++ rest).take k = (encodeFrontend m).take k :=
    List.take_append_of_le_length (by omega)
  rw [htake]
  apply (C27_decode_need_more_iff _).mpr
  by_cases h5 : k < 5
  · left; rw [List.length_take]; omega
  · right
    refine ⟨L, ?_, h4, ?_⟩
    · rw [declaredLen_take _ _ (by omega)]; exact hd
    · rw [List.length_take]
      rw [← hb] at hl
      omega

/-! ### strings are validated as UTF-8 -/

/-- `read_cstring` rejects every NUL-terminated byte string that is not valid UTF-8 (it never
    re-interprets the bytes in another encoding) -/
theorem readCString_invalid_utf8 (s r : Bytes) (hn : nulFree s = true) (hu : utf8Valid s = false) :
    readCString (s ++ 0 :: r) = .error (.err .invalidString) := by
  rw [readCString_eq, position0_append r hn]
  have ht : (s ++ 0 :: r).take s.length = s := List.take_left' rfl
  simp only [ht, hu, Bool.false_eq_true, if_false]

/-- a Query or Password frame whose string is not valid UTF-8 is a protocol error (exactly the
    frame is consumed, what follows is untouched); with `C27_decode_roundtrip` (every valid string
    comes back byte for byte) this pins the decoder's treatment of every byte string -/
theorem C27_decode_rejects_invalid_utf8 (ty : UInt8) (hty : ty = 0x51 ∨ ty = 0x70) (s rest : Bytes)
    (hn : nulFree s = true) (hu : utf8Valid s = false) (hl : 4 + (s.length + 1) < 2147483648) :
    decode (ty :: (be32 (4 + (s.length + 1)) ++ cstr s) ++ rest) = .error .invalidString rest := by
  rw [decode_string_frame ty s rest hl]
  have hr : readCString (s ++ [0]) = .error (.err .invalidString) := readCString_invalid_utf8 s [] hn hu
  rcases hty with rfl | rfl <;> simp [decodeBody, hr, Stop.toOutcome]

/-- non-vacuity: `C3 28`, `FF`, a lone Latin-1 `E9` are NUL-free and not UTF-8; "é" (C3 A9) is -/
example : nulFree [0xc3, 0x28] = true ∧ utf8Valid [0xc3, 0x28] = false ∧ utf8Valid [0xff] = false ∧
    utf8Valid [0xe9] = false ∧ utf8Valid [0xc3, 0xa9] = true := by decide

/-! ### the same for startup-phase packets (StartupMessage, SSLRequest, CancelRequest, …) -/

/-- `decode_startup` asks for more exactly when fewer bytes are buffered than the packet declares
    (or the length field itself is incomplete): the guard is `buffered < declared`, nothing else -/
theorem C27_startup_need_more_iff (b : Bytes) :
    decodeStartup b = .needMore ↔
      b.length < 4 ∨ ∃ L, declaredLenStartup b = some L ∧ 8 ≤ L ∧ (b.length : Int) < L := by
  by_cases hs : b.length < 4
  · exact ⟨fun _ => Or.inl hs, fun _ => decodeStartup_short b hs⟩
  · obtain ⟨b0, b1, b2, b3, tl, rfl⟩ := four_cons b hs
    rw [decodeStartup_closed, declaredLenStartup_cons]
    generalize i32OfBytes b0 b1 b2 b3 = L
    have hlen : ((b0 :: b1 :: b2 :: b3 :: tl).length : Int) = tl.length + 4 := by
      simp only [List.length_cons]; omega
    rw [hlen]
    by_cases h8 : L < 8
    · rw [if_pos h8]
      constructor
      · intro h; exact absurd h (by simp)
      · rintro (h | ⟨L', hL, h8', _⟩)
        · exact absurd h hs
        · simp only [Option.some.injEq] at hL; omega
    · rw [if_neg h8]
      by_cases hl : tl.length + 4 < L.toNat
      · rw [if_pos hl]
        exact ⟨fun _ => Or.inr ⟨L, rfl, by omega, by omega⟩, fun _ => rfl⟩
      · rw [if_neg hl]
        constructor
        · intro h
          rcases startupBody_cases (tl.take (L.toNat - 4)) (tl.drop (L.toNat - 4))
            (take_len_ge4 tl L (by omega) hl) with ⟨_, h'⟩ | ⟨_, h'⟩ <;>
            rw [h'] at h <;> exact absurd h (by simp)
        · rintro (h | ⟨L', hL, h8', hlt⟩)
          · exact absurd h hs
          · simp only [Option.some.injEq] at hL; omega

theorem declaredLenStartup_take (b : Bytes) (k : Nat) (hk : 4 ≤ k) :
    declaredLenStartup (b.take k) = declaredLenStartup b := by
  by_cases hs : b.length < 4
  · rw [List.take_of_length_le (by omega)]
  · obtain ⟨b0, b1, b2, b3, tl, rfl⟩ := four_cons b hs
    obtain ⟨j, rfl⟩ : ∃ j, k = j + 4 := ⟨k - 4, by omega⟩
    rfl

/-- every buffer whose length field declares `L ≥ 8`, cut anywhere before `L` bytes, gives need-more:
    for every packet `f` (whatever its kind or content) and every `k < |f|` -/
theorem C27_startup_cut_need_more (b : Bytes) (L : Int) (hd : declaredLenStartup b = some L)
    (h8 : 8 ≤ L) (k : Nat) (hk : (k : Int) < L) : decodeStartup (b.take k) = .needMore := by
  apply (C27_startup_need_more_iff _).mpr
  by_cases h4 : k < 4
  · left; rw [List.length_take]; omega
  · right
    refine ⟨L, by rw [declaredLenStartup_take _ _ (by omega)]; exact hd, h8, ?_⟩
    rw [List.length_take]; omega

/-- the same for regular frames: cut anywhere before `1 + L` bytes -/
theorem C27_decode_cut_need_more (b : Bytes) (L : Int) (hd : declaredLen b = some L)
    (h4 : 4 ≤ L) (k : Nat) (hk : (k : Int) < 1 + L) : decode (b.take k) = .needMore := by
  apply (C27_decode_need_more_iff _).mpr
  by_cases h5 : k < 5
  · left; rw [List.length_take]; omega
  · right
    refine ⟨L, by rw [declaredLen_take _ _ (by omega)]; exact hd, h4, ?_⟩
    rw [List.length_take]; omega

/-- every strict prefix of a well-formed startup packet or SSLRequest (followed by anything) asks for
    more bytes — in particular the prefix that is exactly one byte short -/
theorem C27_startup_prefix_need_more (m : FrontendMsg) (rest : Bytes) (hw : wfStartup m) (k : Nat)
    (hk : k < (encodeStartup m).length) :
    decodeStartup ((encodeStartup m ++ rest).take k) = .needMore := by
  have hrt := C27_startup_roundtrip m [] hw
  rw [List.append_nil] at hrt
  obtain ⟨frame, L, hb, hd, h8, hl⟩ := C27_startup_frame_bound _ _ _ hrt
  rw [List.append_nil] at hb
  have htake : (encodeStartup m ++ rest).take k = (encodeStartup m).take k :=
    List.take_append_of_le_length (by omega)
  rw [htake]
  apply C27_startup_cut_need_more _ L hd h8
  rw [← hb] at hl
  omega

/-! ### concatenated frames -/

/-- repeatedly decode up to `n` messages off a buffer (what the server's read loop does) -/
def decodeMany : Nat → Bytes → List FrontendMsg × Bytes
  | 0, b => ([], b)
  | n + 1, b =>
    match decode b with
    | .msg m rest => let r := decodeMany n rest; (m :: r.1, r.2)
    | _ => ([], b)

def encodeMany : List FrontendMsg → Bytes
  | [] => []
  | m :: ms => encodeFrontend m ++ encodeMany ms

/-- a stream of concatenated frames decodes to exactly the messages sent, in order, and whatever
    follows them is left in the buffer -/
theorem C27_stream (ms : List FrontendMsg) (tail : Bytes) (hw : ∀ m ∈ ms, wfMsg m) :
    decodeMany ms.length (encodeMany ms ++ tail) = (ms, tail) := by
  induction ms with
  | nil => rfl
  | cons m ms ih =>
    simp only [encodeMany, List.length_cons, decodeMany, List.append_assoc]
    rw [C27_decode_roundtrip m _ (hw m (by simp))]
    simp only
    rw [ih (fun x hx => hw x (by simp [hx]))]

/-! ### the full statement -/

/-- C27 as stated in properties.jsonl, for both decoders -/
def C27_full : Prop :=
  (∀ (b : Bytes) (k : PanicKind), decode b ≠ .panic k ∧ decodeStartup b ≠ .panic k) ∧
  (∀ (b : Bytes) (m : FrontendMsg) (rest : Bytes), decode b = .msg m rest →
      ∃ frame L, b = frame ++ rest ∧ declaredLen b = some L ∧ 4 ≤ L ∧ (frame.length : Int) = 1 + L) ∧
  (∀ (b : Bytes) (e : ProtoErr) (rest : Bytes), decode b = .error e rest →
      rest = b ∨ ∃ frame L, b = frame ++ rest ∧ declaredLen b = some L ∧ 4 ≤ L ∧
        (frame.length : Int) = 1 + L) ∧
  (∀ (b : Bytes) (m : FrontendMsg) (rest : Bytes), decodeStartup b = .msg m rest →
      ∃ frame L, b = frame ++ rest ∧ declaredLenStartup b = some L ∧ 8 ≤ L ∧ (frame.length : Int) = L) ∧
  (∀ (b : Bytes) (e : ProtoErr) (rest : Bytes), decodeStartup b = .error e rest →
      rest = b ∨ ∃ frame L, b = frame ++ rest ∧ declaredLenStartup b = some L ∧ 8 ≤ L ∧
        (frame.length : Int) = L) ∧
  (∀ (m : FrontendMsg) (rest : Bytes), wfMsg m → decode (encodeFrontend m ++ rest) = .msg m rest) ∧
  (∀ (m : FrontendMsg) (rest : Bytes), wfStartup m →
      decodeStartup (encodeStartup m ++ rest) = .msg m rest)

theorem C27_full_holds : C27_full :=
  ⟨fun b k => ⟨C27_decode_no_panic b k, C27_startup_no_panic b k⟩,
   C27_decode_frame_bound, C27_decode_error_bound,
   C27_startup_frame_bound, C27_startup_error_bound,
   C27_decode_roundtrip, C27_startup_roundtrip⟩

/-- the constants the model uses (type bytes tested by `decodeBody`, the two minimum lengths, the
    SSL request code) are the ones messages.rs contains right now (table re-extracted from the
    source on every run by tools/consts.d/c27.py) -/
theorem C27_constants_match_source :
    Generated.wireFrontendTypeBytes = [("Query", 0x51), ("Password", 0x70), ("Terminate", 0x58)] ∧
    Generated.wireFrontendMinLen = 4 ∧ Generated.wireStartupMinLen = 8 ∧
    (Generated.wireSslRequestCode : Int) = sslRequestCode := by
  decide

/-! ### non-vacuity: the hypotheses `wfMsg` / `wfStartup` are satisfied by ordinary messages -/

/-- `Query "SELECT 1"` -/
example : wfMsg (.query [0x53, 0x45, 0x4c, 0x45, 0x43, 0x54, 0x20, 0x31]) := by
  refine ⟨by decide, by decide⟩

/-- `Password "é"` (non-ASCII, two UTF-8 bytes) -/
example : wfMsg (.password [0xc3, 0xa9]) := ⟨by decide, by decide⟩

/-- protocol 3.0, `user=ab`, `database=c` -/
example : wfStartup (.startup 196608
    [([0x75, 0x73, 0x65, 0x72], [0x61, 0x62]), ([0x64, 0x62], [0x63])]) := by
  refine ⟨by decide, by decide, by decide, ?_, by decide⟩
  refine ⟨by decide, by decide, by decide, by decide, ?_⟩
  exact ⟨by decide, by decide, by decide, by decide, trivial⟩

/-- the test vector of messages.rs (`Q`, 13, "SELECT 1\0") followed by another frame -/
example : decode ([0x51, 0, 0, 0, 13, 0x53, 0x45, 0x4c, 0x45, 0x43, 0x54, 0x20, 0x31, 0] ++
      [0x58, 0, 0, 0, 4]) =
    .msg (.query [0x53, 0x45, 0x4c, 0x45, 0x43, 0x54, 0x20, 0x31]) [0x58, 0, 0, 0, 4] := by
  decide

/-! ### the inputs that broke the decoder before the repair (replayed by the harness on every
    run against the real code) now give errors without consuming anything -/

/-- `'Q' ff ff ff ff`: `1 + len` used to overflow -/
theorem C27_regress_negative_length :
    decode [0x51, 0xff, 0xff, 0xff, 0xff] = .error .messageTooShort [0x51, 0xff, 0xff, 0xff, 0xff] := by
  decide

/-- `'Q' 00 00 00 00` followed by another frame: `read_cstring` used to run into the next frame -/
theorem C27_regress_zero_length :
    decode [0x51, 0, 0, 0, 0, 0x51, 0, 0, 0, 6, 0x61, 0] =
      .error .messageTooShort [0x51, 0, 0, 0, 0, 0x51, 0, 0, 0, 6, 0x61, 0] := by
  decide

/-- startup `00 00 00 04`: `get_i32` used to panic on an empty buffer -/
theorem C27_regress_startup_len4 :
    decodeStartup [0, 0, 0, 4] = .error .messageTooShort [0, 0, 0, 4] := by
  decide

/-- startup of length 8 without terminator, followed by other bytes: parsing stays in the packet -/
theorem C27_regress_startup_len8 :
    decodeStartup [0, 0, 0, 8, 0, 3, 0, 0, 0x61, 0, 0x62, 0, 0] =
      .error .invalidString [0x61, 0, 0x62, 0, 0] := by
  decide

end VibeProof.C27
