import VibeProof.Props.C22
#print axioms VibeProof.C22.C22_date_total
#print axioms VibeProof.C22.C22_time_total
#print axioms VibeProof.C22.C22_timestamp_total
#print axioms VibeProof.C22.C22_interval_total
#print axioms VibeProof.C22.C22_total
#print axioms VibeProof.C22.C22_date_roundtrip
#print axioms VibeProof.C22.C22_time_roundtrip
#print axioms VibeProof.C22.C22_timestamp_roundtrip
#print axioms VibeProof.C22.C22_interval_roundtrip
