//! Minimal s-expressions for the model line protocol.
#[derive(Clone, Debug, PartialEq, Eq, Hash, PartialOrd, Ord)]
pub enum Sx {
    Atom(String),
    List(Vec<Sx>),
}

impl Sx {
    pub fn a<S: Into<String>>(s: S) -> Sx {
        Sx::Atom(s.into())
    }
    pub fn int(i: i128) -> Sx {
        Sx::Atom(i.to_string())
    }
    pub fn str(s: &str) -> Sx {
        Sx::Atom(hex_str(s))
    }
    pub fn bytes(b: &[u8]) -> Sx {
        Sx::Atom(if b.is_empty() { "-".into() } else { hex(b) })
    }
    pub fn l(xs: Vec<Sx>) -> Sx {
        Sx::List(xs)
    }
    pub fn as_atom(&self) -> Option<&str> {
        match self {
            Sx::Atom(s) => Some(s),
            _ => None,
        }
    }
    pub fn as_list(&self) -> Option<&[Sx]> {
        match self {
            Sx::List(v) => Some(v),
            _ => None,
        }
    }
    pub fn parse(s: &str) -> Option<Sx> {
        let mut stack: Vec<Vec<Sx>> = vec![];
        let mut cur: Vec<Sx> = vec![];
        let mut tok = String::new();
        let flush = |tok: &mut String, cur: &mut Vec<Sx>| {
            if !tok.is_empty() {
                cur.push(Sx::Atom(std::mem::take(tok)));
            }
        };
        for c in s.chars() {
            match c {
                '(' => {
                    flush(&mut tok, &mut cur);
                    stack.push(std::mem::take(&mut cur));
                }
                ')' => {
                    flush(&mut tok, &mut cur);
                    let done = std::mem::take(&mut cur);
                    cur = stack.pop()?;
                    cur.push(Sx::List(done));
                }
                ' ' | '\n' | '\r' | '\t' => flush(&mut tok, &mut cur),
                c => tok.push(c),
            }
        }
        flush(&mut tok, &mut cur);
        if !stack.is_empty() || cur.len() != 1 {
            return None;
        }
        cur.pop()
    }
}

impl std::fmt::Display for Sx {
    fn fmt(&self, f: &mut std::fmt::Formatter<'_>) -> std::fmt::Result {
        match self {
            Sx::Atom(s) => write!(f, "{}", s),
            Sx::List(v) => {
                write!(f, "(")?;
                for (i, x) in v.iter().enumerate() {
                    if i > 0 {
                        write!(f, " ")?;
                    }
                    write!(f, "{}", x)?;
                }
                write!(f, ")")
            }
        }
    }
}

pub fn hex(b: &[u8]) -> String {
    let mut s = String::with_capacity(b.len() * 2);
    for x in b {
        s.push_str(&format!("{:02x}", x));
    }
    s
}

/// strings travel as hex of their UTF-8 bytes; "-" is the empty string
pub fn hex_str(s: &str) -> String {
    if s.is_empty() {
        "-".into()
    } else {
        hex(s.as_bytes())
    }
}

pub fn unhex(s: &str) -> Option<Vec<u8>> {
    if s == "-" {
        return Some(vec![]);
    }
    if s.len() % 2 != 0 {
        return None;
    }
    let b = s.as_bytes();
    let mut out = Vec::with_capacity(b.len() / 2);
    for i in (0..b.len()).step_by(2) {
        let h = (b[i] as char).to_digit(16)?;
        let l = (b[i + 1] as char).to_digit(16)?;
        out.push((h * 16 + l) as u8);
    }
    Some(out)
}

pub fn unhex_str(s: &str) -> Option<String> {
    String::from_utf8(unhex(s)?).ok()
}
