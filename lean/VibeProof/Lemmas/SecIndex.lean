import Std
import VibeProof.Model.SecIndex
import VibeProof.Model.Index
import VibeProof.Lemmas.Index
import VibeProof.Lemmas.Order
/-
Lemmas for C02: the key order of the index is a lawful total order; the sorted association list
of `Model/SecIndex.lean` satisfies the map equations of the C15 index algebra
(`Model/Index.lean`, imported read-only), so its specification `UOk` and the theorems
"incremental maintenance = rebuild" transfer to it.
-/
namespace VibeProof.SecIndexLemmas
open VibeProof VibeProof.SecIndex VibeProof.OrderLemmas Std

/-! ### the key order -/

theorem vcmp_laws : CmpLaws (fun _ : Value => True) vcmp := by
  have hi := CmpLaws.ofStd (compare : Int → Int → Ordering)
  have hs := CmpLaws.ofStd (compare : String → String → Ordering)
  have hn := CmpLaws.ofStd (compare : Nat → Nat → Ordering)
  constructor
  · intro a b _ _
    cases a <;> cases b <;> first
      | (simp (config := { decide := true }) [vcmp, Value.cmp?, tag, Ordering.swap]; done)
      | exact hi.swap trivial trivial
      | exact hs.swap trivial trivial
      | exact hn.swap trivial trivial
  · intro a b c _ _ _
    cases a <;> cases b <;> cases c <;> first
      | (simp (config := { decide := true }) [vcmp, Value.cmp?, tag]; done)
      | exact hi.lt_lt trivial trivial trivial
      | exact hs.lt_lt trivial trivial trivial
      | exact hn.lt_lt trivial trivial trivial
  · intro a b c _ _ _
    cases a <;> cases b <;> cases c <;> first
      | (simp (config := { decide := true }) [vcmp, Value.cmp?, tag]; done)
      | exact hi.lt_eq trivial trivial trivial
      | exact hs.lt_eq trivial trivial trivial
      | exact hn.lt_eq trivial trivial trivial
  · intro a b c _ _ _
    cases a <;> cases b <;> cases c <;> first
      | (simp (config := { decide := true }) [vcmp, Value.cmp?, tag]; done)
      | exact hi.eq_lt trivial trivial trivial
      | exact hs.eq_lt trivial trivial trivial
      | exact hn.eq_lt trivial trivial trivial
  · intro a b c _ _ _
    cases a <;> cases b <;> cases c <;> first
      | (simp (config := { decide := true }) [vcmp, Value.cmp?, tag]; done)
      | exact hi.eq_eq trivial trivial trivial
      | exact hs.eq_eq trivial trivial trivial
      | exact hn.eq_eq trivial trivial trivial

theorem bool_toNat_inj (a b : Bool) (h : a.toNat = b.toNat) : a = b := by
  cases a <;> cases b <;> simp_all

/-- the key order identifies only equal values (so the map has one entry per key) -/
theorem vcmp_eq_iff (a b : Value) : vcmp a b = .eq ↔ a = b := by
  cases a <;> cases b <;>
    simp (config := { decide := true }) [vcmp, Value.cmp?, tag]
  all_goals first
    | exact Std.LawfulEqCmp.compare_eq_iff_eq
    | (rename_i x y; cases x <;> cases y <;> decide)

theorem kcmp_cons (a b : Value) (as bs : Key) :
    kcmp (a :: as) (b :: bs) = (match vcmp a b with | .eq => kcmp as bs | o => o) := rfl

theorem kcmp_eq_iff (a b : Key) : kcmp a b = .eq ↔ a = b := by
  induction a generalizing b with
  | nil => cases b <;> simp [kcmp]
  | cons x xs ih =>
    cases b with
    | nil => simp [kcmp]
    | cons y ys =>
      rw [kcmp_cons]
      cases h : vcmp x y
      · simp only [List.cons.injEq]
        constructor
        · intro h'; cases h'
        · intro ⟨hxy, _⟩; rw [(vcmp_eq_iff x y).mpr hxy] at h; cases h
      · have := (vcmp_eq_iff x y).mp h
        subst this
        simp [ih]
      · simp only [List.cons.injEq]
        constructor
        · intro h'; cases h'
        · intro ⟨hxy, _⟩; rw [(vcmp_eq_iff x y).mpr hxy] at h; cases h

theorem kcmp_swap (a b : Key) : kcmp b a = (kcmp a b).swap := by
  induction a generalizing b with
  | nil => cases b <;> simp [kcmp, Ordering.swap]
  | cons x xs ih =>
    cases b with
    | nil => simp [kcmp, Ordering.swap]
    | cons y ys =>
      rw [kcmp_cons, kcmp_cons, vcmp_laws.swap (a := x) (b := y) trivial trivial]
      cases vcmp x y <;> simp [Ordering.swap, ih]

theorem kcmp_lt_trans (a b c : Key) (h1 : kcmp a b = .lt) (h2 : kcmp b c = .lt) : kcmp a c = .lt := by
  induction a generalizing b c with
  | nil =>
    cases b with
    | nil => simp [kcmp] at h1
    | cons y ys => cases c <;> simp_all [kcmp]
  | cons x xs ih =>
    cases b with
    | nil => simp [kcmp] at h1
    | cons y ys =>
      cases c with
      | nil => simp [kcmp] at h2
      | cons z zs =>
        rw [kcmp_cons] at h1 h2 ⊢
        have L := vcmp_laws
        cases hxy : vcmp x y <;> cases hyz : vcmp y z <;> simp [hxy, hyz] at h1 h2
        · rw [L.lt_lt trivial trivial trivial hxy hyz]
        · rw [L.lt_eq trivial trivial trivial hxy hyz]
        · rw [L.eq_lt trivial trivial trivial hxy hyz]
        · rw [L.eq_eq trivial trivial trivial hxy hyz]; exact ih ys zs h1 h2

/-! ### sorted association list = map -/

/-- keys strictly increasing (what a BTreeMap guarantees) -/
def Sorted (idx : Index) : Prop := (idx.map (·.1)).Pairwise (fun a b => kcmp a b = .lt)

/-- view of the sorted list in the C15 algebra (`Option Value` components all present) -/
def lift (k : Key) : Idx.Key := k.map some

def abs (idx : Index) : Idx.UData := idx.map (fun kp => (lift kp.1, kp.2))

theorem lift_inj (a b : Key) (h : lift a = lift b) : a = b := by
  induction a generalizing b with
  | nil => cases b <;> simp_all [lift]
  | cons x xs ih =>
    cases b with
    | nil => simp [lift] at h
    | cons y ys =>
      simp only [lift, List.map_cons, List.cons.injEq, Option.some.injEq] at h
      rw [h.1, ih ys h.2]

theorem abs_cons (k : Key) (ps : List Nat) (rest : Index) :
    abs ((k, ps) :: rest) = (lift k, ps) :: abs rest := rfl

theorem abs_nil : abs [] = [] := rfl

theorem sorted_nil : Sorted [] := by simp [Sorted]

theorem sorted_tail {e : Key × List Nat} {rest : Index} (h : Sorted (e :: rest)) : Sorted rest := by
  unfold Sorted at *
  simp only [List.map_cons, List.pairwise_cons] at h
  exact h.2

theorem sorted_head {e : Key × List Nat} {rest : Index} (h : Sorted (e :: rest)) :
    ∀ e' ∈ rest, kcmp e.1 e'.1 = .lt := by
  unfold Sorted at h
  simp only [List.map_cons, List.pairwise_cons, List.mem_map] at h
  intro e' he'
  exact h.1 e'.1 ⟨e', he', rfl⟩

theorem sorted_cons {e : Key × List Nat} {rest : Index} (h1 : ∀ e' ∈ rest, kcmp e.1 e'.1 = .lt)
    (h2 : Sorted rest) : Sorted (e :: rest) := by
  unfold Sorted at *
  simp only [List.map_cons, List.pairwise_cons, List.mem_map]
  refine ⟨?_, h2⟩
  rintro k ⟨e', he', rfl⟩
  exact h1 e' he'

/-- a key below the head of a sorted list is not in it -/
theorem uGet_abs_of_lt_head (idx : Index) (k : Key) (h : Sorted idx)
    (hlt : ∀ e ∈ idx, kcmp k e.1 = .lt) : Idx.uGet (abs idx) (lift k) = [] := by
  induction idx with
  | nil => simp [abs_nil, Idx.uGet]
  | cons e rest ih =>
    obtain ⟨k0, ps⟩ := e
    have hk : lift k0 ≠ lift k := by
      intro heq
      have := lift_inj _ _ heq
      subst this
      have := hlt (k0, ps) (List.mem_cons_self)
      rw [(kcmp_eq_iff k0 k0).mpr rfl] at this
      cases this
    rw [abs_cons]
    simp only [Idx.uGet, hk, if_false]
    exact ih (sorted_tail h) (fun e he => hlt e (List.mem_cons_of_mem _ he))

theorem mem_insert_key (idx : Index) (k : Key) (p : Nat) :
    ∀ e ∈ idx.insert k p, e.1 = k ∨ ∃ e' ∈ idx, e'.1 = e.1 := by
  induction idx with
  | nil => intro e he; simp [Index.insert] at he; exact Or.inl (by rw [he])
  | cons e0 rest ih =>
    obtain ⟨k0, ps⟩ := e0
    intro e he
    simp only [Index.insert] at he
    cases hc : kcmp k k0 <;> simp only [hc] at he
    · rcases List.mem_cons.mp he with h | h
      · exact Or.inl (by rw [h])
      · exact Or.inr ⟨e, h, rfl⟩
    · rcases List.mem_cons.mp he with h | h
      · exact Or.inr ⟨(k0, ps), List.mem_cons_self, by rw [h]⟩
      · exact Or.inr ⟨e, List.mem_cons_of_mem _ h, rfl⟩
    · rcases List.mem_cons.mp he with h | h
      · exact Or.inr ⟨(k0, ps), List.mem_cons_self, by rw [h]⟩
      · rcases ih e h with h' | ⟨e', he', hk⟩
        · exact Or.inl h'
        · exact Or.inr ⟨e', List.mem_cons_of_mem _ he', hk⟩

/-- inserting keeps the keys strictly increasing -/
theorem sorted_insert (idx : Index) (k : Key) (p : Nat) (h : Sorted idx) : Sorted (idx.insert k p) := by
  induction idx with
  | nil => simp [Index.insert, Sorted]
  | cons e0 rest ih =>
    obtain ⟨k0, ps⟩ := e0
    simp only [Index.insert]
    cases hc : kcmp k k0 <;> simp only
    · apply sorted_cons _ h
      intro e' he'
      rcases List.mem_cons.mp he' with h' | h'
      · rw [h']; exact hc
      · exact kcmp_lt_trans _ _ _ hc (sorted_head h e' h')
    · exact sorted_cons (e := (k0, ps ++ [p])) (sorted_head h) (sorted_tail h)
    · apply sorted_cons _ (ih (sorted_tail h))
      intro e' he'
      rcases mem_insert_key rest k p e' he' with h' | ⟨e'', he'', hk⟩
      · show kcmp k0 e'.1 = .lt
        rw [h', kcmp_swap k k0, hc]; rfl
      · show kcmp k0 e'.1 = .lt
        rw [← hk]; exact sorted_head h e'' he''

theorem uGet_cons (k0 : Idx.Key) (v : List Nat) (d : Idx.UData) (k : Idx.Key) :
    Idx.uGet ((k0, v) :: d) k = if k0 = k then v else Idx.uGet d k := rfl

theorem lift_ne {a b : Key} (h : kcmp a b ≠ .eq) : ¬ lift b = lift a := by
  intro heq
  have := lift_inj _ _ heq
  subst this
  exact h ((kcmp_eq_iff b b).mpr rfl)

/-- map equation of `insert`, in the vocabulary of the C15 algebra: the position is appended to
the key's list, other keys are untouched -/
theorem uGet_abs_insert (idx : Index) (k : Key) (p : Nat) (h : Sorted idx) (k' : Idx.Key) :
    Idx.uGet (abs (idx.insert k p)) k' = Idx.uGet (Idx.uAdd (abs idx) (lift k) p) k' := by
  rw [Idx.uGet_add]
  induction idx with
  | nil =>
    simp only [Index.insert, abs_cons, abs_nil, uGet_cons, Idx.uGet]
    by_cases hk : k' = lift k
    · subst hk; simp
    · have : ¬ lift k = k' := fun h => hk h.symm
      simp [hk, this]
  | cons e0 rest ih =>
    obtain ⟨k0, ps⟩ := e0
    simp only [Index.insert]
    cases hc : kcmp k k0 <;> simp only
    · -- new smallest key
      have hnot : Idx.uGet (abs ((k0, ps) :: rest)) (lift k) = [] := by
        apply uGet_abs_of_lt_head _ _ h
        intro e he
        rcases List.mem_cons.mp he with h' | h'
        · rw [h']; exact hc
        · exact kcmp_lt_trans _ _ _ hc (sorted_head h e h')
      simp only [abs_cons, uGet_cons] at hnot ⊢
      by_cases hk : k' = lift k
      · subst hk
        rw [hnot]
        simp
      · have : ¬ lift k = k' := fun h => hk h.symm
        simp [hk, this]
    · -- existing key
      have hkk : k = k0 := (kcmp_eq_iff k k0).mp hc
      subst hkk
      simp only [abs_cons, uGet_cons]
      by_cases hk : k' = lift k
      · subst hk; simp
      · have : ¬ lift k = k' := fun h => hk h.symm
        simp [hk, this]
    · -- larger than the head: recurse
      have hne : ¬ lift k0 = lift k := lift_ne (by rw [hc]; decide)
      have ih' := ih (sorted_tail h)
      simp only [abs_cons, uGet_cons]
      rw [ih']
      by_cases hk0 : lift k0 = k'
      · subst hk0
        simp [hne]
      · by_cases hk : k' = lift k
        · subst hk; simp [hne]
        · simp [hk0, hk]

/-- map equation of `remove` -/
theorem uGet_abs_remove (idx : Index) (k : Key) (p : Nat) (h : Sorted idx) (k' : Idx.Key) :
    Idx.uGet (abs (idx.remove k p)) k' = Idx.uGet (Idx.uDel (abs idx) (lift k) p) k' := by
  rw [Idx.uGet_del]
  induction idx with
  | nil => simp [Index.remove, abs_nil, Idx.uGet]
  | cons e0 rest ih =>
    obtain ⟨k0, ps⟩ := e0
    have ih' := ih (sorted_tail h)
    have other : kcmp k k0 ≠ .eq →
        Idx.uGet (abs ((k0, ps) :: Index.remove rest k p)) k' =
          if k' = lift k then (Idx.uGet (abs ((k0, ps) :: rest)) (lift k)).filter (fun q => q != p)
          else Idx.uGet (abs ((k0, ps) :: rest)) k' := by
      intro hc
      have hne : ¬ lift k0 = lift k := lift_ne hc
      simp only [abs_cons, uGet_cons]
      rw [ih']
      by_cases hk0 : lift k0 = k'
      · subst hk0
        simp [hne]
      · by_cases hk : k' = lift k
        · subst hk; simp [hne]
        · simp [hk0, hk]
    simp only [Index.remove]
    cases hc : kcmp k k0 <;> simp only
    · exact other (by rw [hc]; decide)
    · have hkk : k = k0 := (kcmp_eq_iff k k0).mp hc
      subst hkk
      have hnot : Idx.uGet (abs rest) (lift k) = [] :=
        uGet_abs_of_lt_head _ _ (sorted_tail h) (sorted_head h)
      split
      · rename_i hemp
        have hfil : List.filter (fun q => q != p) ps = [] := by simpa using hemp
        simp only [abs_cons, uGet_cons]
        by_cases hk : k' = lift k
        · subst hk
          simp [hfil, hnot]
        · have : ¬ lift k = k' := fun h => hk h.symm
          simp [hk, this]
      · simp only [abs_cons, uGet_cons]
        by_cases hk : k' = lift k
        · subst hk; simp
        · have : ¬ lift k = k' := fun h => hk h.symm
          simp [hk, this]
    · exact other (by rw [hc]; decide)

theorem mem_remove_key (idx : Index) (k : Key) (p : Nat) :
    ∀ e ∈ idx.remove k p, ∃ e' ∈ idx, e'.1 = e.1 := by
  induction idx with
  | nil => intro e he; simp [Index.remove] at he
  | cons e0 rest ih =>
    obtain ⟨k0, ps⟩ := e0
    intro e he
    simp only [Index.remove] at he
    cases hc : kcmp k k0 <;> simp only [hc] at he
    · rcases List.mem_cons.mp he with h | h
      · exact ⟨(k0, ps), List.mem_cons_self, by rw [h]⟩
      · obtain ⟨e', he', hk⟩ := ih e h
        exact ⟨e', List.mem_cons_of_mem _ he', hk⟩
    · split at he
      · exact ⟨e, List.mem_cons_of_mem _ he, rfl⟩
      · rcases List.mem_cons.mp he with h | h
        · exact ⟨(k0, ps), List.mem_cons_self, by rw [h]⟩
        · exact ⟨e, List.mem_cons_of_mem _ h, rfl⟩
    · rcases List.mem_cons.mp he with h | h
      · exact ⟨(k0, ps), List.mem_cons_self, by rw [h]⟩
      · obtain ⟨e', he', hk⟩ := ih e h
        exact ⟨e', List.mem_cons_of_mem _ he', hk⟩

theorem sorted_remove (idx : Index) (k : Key) (p : Nat) (h : Sorted idx) : Sorted (idx.remove k p) := by
  induction idx with
  | nil => simp [Index.remove, Sorted]
  | cons e0 rest ih =>
    obtain ⟨k0, ps⟩ := e0
    have hrest : ∀ e' ∈ Index.remove rest k p, kcmp k0 e'.1 = .lt := by
      intro e' he'
      obtain ⟨e'', he'', hk⟩ := mem_remove_key rest k p e' he'
      rw [← hk]; exact sorted_head h e'' he''
    simp only [Index.remove]
    cases hc : kcmp k k0 <;> simp only
    · exact sorted_cons (e := (k0, ps)) hrest (ih (sorted_tail h))
    · split
      · exact sorted_tail h
      · exact sorted_cons (e := (k0, _)) (sorted_head h) (sorted_tail h)
    · exact sorted_cons (e := (k0, ps)) hrest (ih (sorted_tail h))

/-- `UOk` only looks at `uGet` -/
theorem UOk_congr (d d' : Idx.UData) (f : Row → Idx.Key) (rows : List Row)
    (hg : ∀ k, Idx.uGet d' k = Idx.uGet d k) (h : Idx.UOk d f rows) : Idx.UOk d' f rows := by
  obtain ⟨h1, h2⟩ := h
  exact ⟨fun k => by rw [hg]; exact h1 k, fun k p => by rw [hg]; exact h2 k p⟩

/-! ### build -/

theorem buildFrom_append (idx : Index) (n : Nat) (ks : List Key) (k : Key) :
    buildFrom idx n (ks ++ [k]) = (buildFrom idx n ks).insert (k.map normValue) (n + ks.length) := by
  induction ks generalizing idx n with
  | nil => simp [buildFrom]
  | cons x xs ih =>
    simp only [List.cons_append, buildFrom, List.length_cons]
    rw [ih]
    congr 1
    omega

theorem build_snoc (ks : List Key) (k : Key) :
    build (ks ++ [k]) = (build ks).insert (k.map normValue) ks.length := by
  unfold build
  rw [buildFrom_append]
  simp

theorem sorted_build (ks : List Key) : Sorted (build ks) := by
  induction ks using Idx.snoc_induction with
  | nil => exact sorted_nil
  | snoc ks k ih => rw [build_snoc]; exact sorted_insert _ _ _ ih

end VibeProof.SecIndexLemmas
