import VibeProof.Model.Codec
import VibeProof.Model.Rel
open VibeProof VibeProof.Proto VibeProof.Codec

/-- `(tvs (rows R…) E)` → `(tvs t f u …)`: truth value of the predicate on every row.
    `(vals (rows R…) E)` → `(vals V …)`: value of the expression on every row. -/
def handle : List Sx → Sx
  | [.atom "tvs", rows, e] =>
    match decRows rows, decExpr e with
    | some rs, some ex =>
      match rs.mapM (fun r => ex.tv r) with
      | .ok tvs => .list (.atom "tvs" :: tvs.map (fun v => .atom (encTV v)))
      | .error er => encErr er
    | _, _ => .atom "bad-request"
  | [.atom "vals", rows, e] =>
    match decRows rows, decExpr e with
    | some rs, some ex =>
      match rs.mapM (fun r => ex.eval r) with
      | .ok vs => .list (.atom "vals" :: vs.map (fun v => .atom (encValue v)))
      | .error er => encErr er
    | _, _ => .atom "bad-request"
  | _ => .atom "bad-request"

def main : IO Unit := runDriver handle
