import VibeProof.Model.Proto
import VibeProof.Model.Lexer
open VibeProof VibeProof.Proto VibeProof.Lexer

def encTok : Tok → Sx
  | .kw v => .list [.atom "kw", .atom v]
  | .ident s => .list [.atom "id", .atom (charsToHex s)]
  | .delim s => .list [.atom "did", .atom (charsToHex s)]
  | .num s => .list [.atom "num", .atom (charsToHex s)]
  | .str s => .list [.atom "str", .atom (charsToHex s)]
  | .sym c => .list [.atom "sym", .atom (charsToHex [c])]
  | .op s => .list [.atom "op", .atom (charsToHex s)]
  | .svar s => .list [.atom "svar", .atom (charsToHex s)]
  | .uvar s => .list [.atom "uvar", .atom (charsToHex s)]
  | .semi => .atom "semi" | .comma => .atom "comma" | .lparen => .atom "lp" | .rparen => .atom "rp"
  | .eof => .atom "eof"

def encKind : ErrKind → String
  | .unexpectedChar => "unexpected" | .singlePipe => "pipe" | .emptySessionVar => "svar"
  | .emptyUserVar => "uvar" | .badExponent => "exponent" | .emptyDelimited => "emptydelim"
  | .unterminatedDelimited => "unterminateddelim" | .unterminatedString => "unterminatedstring"

def decUpper : Sx → Option (Char × List Char)
  | .list [.atom c, .atom u] => do
      let cs ← hexToChars c
      let us ← hexToChars u
      match cs with
      | [ch] => some (ch, us)
      | _ => none
  | _ => none

def skTokOf : Char → Option SkTok
  | 'a' => some .atom | '(' => some .lp | ')' => some .rp | 'n' => some .not
  | '-' => some .minus | 'b' => some .binop
  | _ => none

/-- `lex <hex input> <hex non-ASCII whitespace chars> <hex non-ASCII alphanumeric chars> ((<hex c> <hex upper>)…)`
      → `(ok (tok start stop)…)` | `(err kind pos)`
    `sk <budget> <n> <family>` with family `paren|not|minus` → `(ok rest)` | `(err tooDeep|syntax|fuel)` -/
def handle : List Sx → Sx
  | [.atom "lex", .atom inp, .atom ws, .atom al, .list ups] =>
    match hexToChars inp, hexToChars ws, hexToChars al, ups.mapM decUpper with
    | some cs, some wsl, some all, some upl =>
      let k : Cls := ⟨fun c => wsl.contains c, fun c => all.contains c,
        fun c => match upl.find? (fun p => p.1 = c) with | some p => p.2 | none => [c]⟩
      match tokenize k cs with
      | .ok ts => .list (.atom "ok" :: ts.map (fun s => .list [encTok s.tok, sxNat s.start, sxNat s.stop]))
      | .error e => .list [.atom "err", .atom (encKind e.kind), sxNat e.pos]
    | _, _, _, _ => .atom "bad-request"
  | [.atom "sk", .atom d, .atom n, .atom fam] =>
    -- `-` = the budget the real parser leaves to an expression: MAX_NESTING_DEPTH minus the level of
    -- the enclosing SELECT
    match (if d = "-" then some (VibeProof.Generated.parserMaxNestingDepth - 1) else d.toNat?), n.toNat? with
    | some budget, some k =>
      let toks : List SkTok := match fam with
        | "paren" => List.replicate k .lp ++ [.atom] ++ List.replicate k .rp
        | "not" => List.replicate k .not ++ [.atom]
        | "minus" => List.replicate k .minus ++ [.atom]
        | _ => []
      match sk (5 * toks.length + 5) .expr budget toks with
      | .ok rest => .list [.atom "ok", sxNat rest.length]
      | .error .tooDeep => .list [.atom "err", .atom "tooDeep"]
      | .error .syntax => .list [.atom "err", .atom "syntax"]
      | .error .outOfFuel => .list [.atom "err", .atom "fuel"]
    | _, _ => .atom "bad-request"
  | [.atom "typearms"] =>
    -- the type keywords `parse_data_type` dispatches on, as extracted from the source on this run
    .list (.atom "arms" :: VibeProof.Generated.parserDataTypeArms.map (fun a => Sx.atom a))
  | [.atom "chain", .atom n] =>
    -- a left-associative chain of n links against MAX_CHAIN_LENGTH read from the source
    match n.toNat? with
    | some k =>
      match chainLoop VibeProof.Generated.parserMaxChainLength 0 k with
      | .ok d => .list [.atom "ok", sxNat d]
      | .error .tooLong => .list [.atom "err", .atom "tooLong"]
    | none => .atom "bad-request"
  | _ => .atom "bad-request"

def main : IO Unit := runDriver handle
