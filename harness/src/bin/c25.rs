//! C25 — the query result cache never serves a stale or foreign result.
//!
//! Real parts: `QuerySignature::from_sql`, `QueryResultCache`, `extract_tables_from_select`,
//! wired exactly as /repo/tests/sqllogictest/db_adapter.rs wires them (SELECT → get, or execute
//! and insert; INSERT/UPDATE/DELETE/DROP TABLE on t → invalidate_table(t) then execute; every
//! other statement is just executed).
//!
//! Direct oracle: after every read, cached answer = answer of an uncached twin database;
//! equal signatures ⇒ equal token streams (the real lexer); every table the generator put into
//! a query text is in the extracted set.
//! Correspondence: signature equality of text pairs vs `normalizeQ` equality, extracted table
//! sets vs `extractTables`, cache get/insert/invalidate traces vs the model state machine
//! (raw traces and the traces the histories induce).
use std::collections::{BTreeMap, BTreeSet, HashSet};
use vharness::*;
use vibesql_ast::Statement;
use vibesql_executor::cache::{extract_tables_from_select, QueryResultCache, QuerySignature};
use vibesql_parser::{Lexer, Parser};
use vibesql_storage::Row;
use vibesql_types::SqlValue;

// ---------------------------------------------------------------- helpers

static T_EXEC: std::sync::atomic::AtomicU64 = std::sync::atomic::AtomicU64::new(0);
static T_SETUP: std::sync::atomic::AtomicU64 = std::sync::atomic::AtomicU64::new(0);
static T_MODEL: std::sync::atomic::AtomicU64 = std::sync::atomic::AtomicU64::new(0);
static T_SLOWEST: std::sync::Mutex<(u64, String)> = std::sync::Mutex::new((0, String::new()));
fn timed<T>(label: &str, f: impl FnOnce() -> T) -> T {
    let t = std::time::Instant::now();
    let r = f();
    let us = t.elapsed().as_micros() as u64;
    T_EXEC.fetch_add(us, std::sync::atomic::Ordering::Relaxed);
    let mut g = T_SLOWEST.lock().unwrap();
    if us > g.0 {
        *g = (us, label.to_string());
    }
    r
}
fn hx(s: &str) -> String {
    sx::hex_str(s)
}

fn tokens(sql: &str) -> Option<String> {
    let s = sql.to_string();
    std::panic::catch_unwind(move || Lexer::new(&s).tokenize().ok().map(|t| format!("{:?}", t))).unwrap_or(None)
}

fn real_tables(sql: &str) -> Option<Vec<String>> {
    match Db::parse(sql) {
        Ok(Statement::Select(s)) => {
            let mut v: Vec<String> = extract_tables_from_select(&s).into_iter().collect();
            v.sort();
            Some(v)
        }
        _ => None,
    }
}

fn model_list(reply: &str, head: &str) -> Option<Vec<Sx>> {
    match Sx::parse(reply) {
        Some(Sx::List(v)) if v.first().and_then(|x| x.as_atom()) == Some(head) => Some(v[1..].to_vec()),
        _ => None,
    }
}

// ---------------------------------------------------------------- the cache-backed executor

#[derive(Clone, Debug, PartialEq)]
enum Effect {
    /// announced write: the adapter calls invalidate_table(name) for it
    Direct(String),
    /// contents of the table changed without an announcement for it
    Cascade(String),
    Rollback(String),
    /// schema-level change (ALTER TABLE, view redefinition) — never announced by the adapter
    Ddl(String),
}

struct Cached {
    db: Db,
    twin: Db,
    cache: QueryResultCache,
    max: usize,
    /// SQL texts that were inserted at some point (candidates for "which key was evicted")
    keys: Vec<String>,
    /// canonical row sequences; index = tag sent to the model
    tags: Vec<String>,
    trace: Vec<String>,
    expect: Vec<String>,
    /// per op index: effects on table contents
    effects: Vec<Vec<Effect>>,
    /// sql text → op index at which the entry currently cached under its signature was inserted
    inserted_at: BTreeMap<u64, usize>,
    script: Vec<String>,
    hits: u64,
    misses: u64,
    evictions: u64,
    in_tx: bool,
    tx_written: BTreeSet<String>,
}

#[derive(Debug)]
struct ReadResult {
    cached: Out,
    twin: Out,
    hit: bool,
    inserted_at: Option<usize>,
}

impl Cached {
    fn new(max: usize) -> Cached {
        let mut db = Db::new();
        let mut twin = Db::new();
        db.keep_log = false;
        twin.keep_log = false;
        Cached {
            db,
            twin,
            cache: QueryResultCache::new(max),
            max,
            keys: vec![],
            tags: vec![],
            trace: vec![],
            expect: vec![],
            effects: vec![],
            inserted_at: BTreeMap::new(),
            script: vec![],
            hits: 0,
            misses: 0,
            evictions: 0,
            in_tx: false,
            tx_written: BTreeSet::new(),
        }
    }

    fn tag(&mut self, rows: &[Vec<SqlValue>]) -> usize {
        let c = canon::rows_seq(rows);
        if let Some(i) = self.tags.iter().position(|t| *t == c) {
            i
        } else {
            self.tags.push(c);
            self.tags.len() - 1
        }
    }

    /// a statement that is not a SELECT; `extra` = effects beyond the announced one
    fn write(&mut self, sql: &str, extra: Vec<Effect>) -> (Out, Out) {
        self.script.push(sql.to_string());
        let mut eff = extra;
        let stmt = match Db::parse(sql) {
            Ok(s) => s,
            Err(o) => {
                self.effects.push(eff);
                return (o.clone(), o);
            }
        };
        let announced = match &stmt {
            Statement::Insert(s) => Some(s.table_name.clone()),
            Statement::Update(s) => Some(s.table_name.clone()),
            Statement::Delete(s) => Some(s.table_name.clone()),
            Statement::DropTable(s) => Some(s.table_name.clone()),
            _ => None,
        };
        if let Some(t) = &announced {
            self.cache.invalidate_table(t);
            self.trace.push(format!("(inv {})", hx(t)));
            self.expect.push("ok".into());
            eff.push(Effect::Direct(t.to_uppercase()));
            if self.in_tx {
                self.tx_written.insert(t.to_uppercase());
            }
        }
        match &stmt {
            Statement::BeginTransaction(_) => {
                self.in_tx = true;
                self.tx_written.clear();
            }
            Statement::Commit(_) => self.in_tx = false,
            Statement::Rollback(_) => {
                self.in_tx = false;
                for t in std::mem::take(&mut self.tx_written) {
                    eff.push(Effect::Rollback(t));
                }
            }
            _ => {}
        }
        self.effects.push(eff);
        let a = timed(sql, || self.db.exec_stmt(&stmt));
        let b = timed(sql, || self.twin.exec_stmt(&stmt));
        (a, b)
    }

    fn read(&mut self, sql: &str) -> ReadResult {
        self.script.push(sql.to_string());
        self.effects.push(vec![]);
        let op_index = self.effects.len() - 1;
        let twin = timed(sql, || self.twin.exec(sql));
        let stmt = match Db::parse(sql) {
            Ok(s) => s,
            Err(o) => return ReadResult { cached: o, twin, hit: false, inserted_at: None },
        };
        let select = match &stmt {
            Statement::Select(s) => s,
            _ => panic!("read() wants a SELECT"),
        };
        let sig = QuerySignature::from_sql(sql);
        if let Some((rows, _schema)) = self.cache.get(&sig) {
            self.hits += 1;
            let rows: Vec<Vec<SqlValue>> = rows.into_iter().map(|r| r.values).collect();
            let t = self.tag(&rows);
            self.trace.push(format!("(get {})", hx(sql)));
            self.expect.push(format!("(hit {})", t));
            let at = self.inserted_at.get(&sig.hash()).cloned();
            return ReadResult { cached: Out::Rows(rows), twin, hit: true, inserted_at: at };
        }
        self.misses += 1;
        self.trace.push(format!("(get {})", hx(sql)));
        self.expect.push("miss".into());
        let out = timed(sql, || self.db.exec_stmt(&stmt));
        if let Out::Rows(rows) = &out {
            use vibesql_catalog::{ColumnSchema, TableSchema};
            use vibesql_executor::schema::CombinedSchema;
            let schema = if let Some(first) = rows.first() {
                let cols: Vec<ColumnSchema> = first
                    .iter()
                    .enumerate()
                    .map(|(i, v)| ColumnSchema { name: format!("col{}", i), data_type: v.get_type(), nullable: v.is_null(), default_value: None })
                    .collect();
                CombinedSchema::from_table("result".to_string(), TableSchema::new("result".to_string(), cols))
            } else {
                CombinedSchema::from_table("result".to_string(), TableSchema::new("result".to_string(), vec![]))
            };
            let tables = extract_tables_from_select(select);
            let mut tl: Vec<String> = tables.iter().cloned().collect();
            tl.sort();
            // which keys are cached now (to learn the eviction victim, which the hash map picks)
            let before: Vec<String> = self.keys.iter().filter(|k| self.cache.contains(&QuerySignature::from_sql(k))).cloned().collect();
            let size_before = self.cache.stats().size;
            self.cache.insert(sig.clone(), rows.iter().map(|r| Row::new(r.clone())).collect(), schema, tables);
            let mut victim: Option<String> = None;
            for k in &before {
                let ks = QuerySignature::from_sql(k);
                if ks != sig && !self.cache.contains(&ks) {
                    victim = Some(k.clone());
                }
            }
            if victim.is_none() && size_before >= self.max && size_before > 0 {
                // the evicted key was the inserted key itself (only possible when it was cached)
                victim = before.iter().find(|k| QuerySignature::from_sql(k) == sig).cloned();
            }
            if victim.is_some() {
                self.evictions += 1;
            }
            let t = self.tag(rows);
            self.trace.push(format!(
                "(ins {} {} ({}) {})",
                hx(sql),
                t,
                tl.iter().map(|n| hx(n)).collect::<Vec<_>>().join(" "),
                victim.as_deref().map(hx).unwrap_or_else(|| "none".into())
            ));
            self.expect.push("ok".into());
            if !self.keys.iter().any(|k| k == sql) {
                self.keys.push(sql.to_string());
            }
            self.inserted_at.insert(sig.hash(), op_index);
        }
        ReadResult { cached: out, twin, hit: false, inserted_at: None }
    }

    fn model_check(&self, model: &mut model::Model, rep: &mut Report, what: &str) {
        if self.trace.is_empty() {
            return;
        }
        let tm = std::time::Instant::now();
        let reply = model.ask(&format!("trace {} {}", self.max, self.trace.join(" ")));
        T_MODEL.fetch_add(tm.elapsed().as_micros() as u64, std::sync::atomic::Ordering::Relaxed);
        let got: Option<Vec<String>> = model_list(&reply, "r").map(|v| v.iter().map(|x| x.to_string()).collect());
        rep.traces_validated += 1;
        if got.as_ref() != Some(&self.expect) {
            let first = got
                .as_ref()
                .and_then(|g| g.iter().zip(self.expect.iter()).position(|(a, b)| a != b))
                .map(|i| format!("first difference at cache op {}: {} — code {} model {}", i, self.trace[i], self.expect[i], got.as_ref().unwrap()[i]))
                .unwrap_or_else(|| format!("model reply: {}", reply));
            rep.fail(
                FailKind::ModelDiff,
                None,
                &format!("{}: cache get/insert/invalidate trace of the code differs from the model state machine", what),
                &format!("{}\ncapacity {}\nSQL script:\n{}\ncache ops: {}\ncode:  {}\n", first, self.max, self.script.join(";\n"), self.trace.join(" "), self.expect.join(" ")),
            );
        }
    }
}

fn same_answer(a: &Out, b: &Out) -> bool {
    match (a, b) {
        (Out::Rows(x), Out::Rows(y)) => canon::rows_bag(x) == canon::rows_bag(y),
        (Out::Err { .. }, Out::Err { .. }) => true,
        (Out::Count(x), Out::Count(y)) => x == y,
        _ => false,
    }
}

// ---------------------------------------------------------------- query pool for histories

#[derive(Clone, Debug)]
struct Q {
    text: String,
    /// names in FROM positions (upper-case), i.e. what the extractor can see
    named: Vec<String>,
}

/// bodies of string literals (already SQL-escaped); several contain the *other* delimiter
/// characters, which are ordinary content inside '…'
const LITS: &[&str] = &["x", "X", "a b", "a  b", "Y", "y", "say \"Hi\"", "say \"hi\"", "it`s  A", "it`s a", "o''\"K  z", "o''\"k z"];

fn table_pool(with_views: bool) -> Vec<&'static str> {
    if with_views {
        vec!["t0", "t1", "t2", "v0", "v1", "c", "p"]
    } else {
        vec!["t0", "t1", "t2", "c", "p"]
    }
}

/// base tables a name depends on
fn base_of(name: &str) -> Vec<String> {
    match name.to_uppercase().as_str() {
        "V0" => vec!["T0".into()],
        "V1" => vec!["T1".into(), "T2".into()],
        n => vec![n.to_string()],
    }
}

fn cols_of(name: &str) -> (&'static str, &'static str) {
    match name {
        "c" => ("id", "pid"),
        "p" => ("id", "id"),
        _ => ("a", "b"),
    }
}

fn gen_query(r: &mut Rng, with_views: bool) -> Q {
    let pool = table_pool(with_views);
    let t = *r.pick(&pool);
    let u = *r.pick(&pool);
    let (ta, tb) = cols_of(t);
    let (ua, _ub) = cols_of(u);
    let lit = *r.pick(LITS);
    let strcol = if tb == "b" { "b" } else { "" };
    let k = r.below(14);
    let (text, named): (String, Vec<&str>) = match k {
        0 => (format!("SELECT * FROM {}", t), vec![t]),
        1 if !strcol.is_empty() => (format!("SELECT {}, b FROM {} WHERE b = '{}'", ta, t, lit), vec![t]),
        2 => (format!("SELECT {} FROM {} WHERE {} IN (SELECT {} FROM {})", ta, t, ta, ua, u), vec![t, u]),
        3 => (format!("SELECT x.{}, y.{} FROM {} AS x JOIN {} AS y ON x.{} = y.{}", ta, ua, t, u, ta, ua), vec![t, u]),
        4 => (format!("SELECT x.{} FROM {} AS x, {} AS y WHERE x.{} = y.{}", ta, t, u, ta, ua), vec![t, u]),
        5 => (format!("WITH q AS (SELECT {} AS k FROM {}) SELECT k FROM q", ta, t), vec![t, "q"]),
        6 => (format!("SELECT {} FROM {} UNION SELECT {} FROM {}", ta, t, ua, u), vec![t, u]),
        7 => (format!("SELECT d.k FROM (SELECT {} AS k FROM {}) AS d", ta, t), vec![t]),
        8 => (format!("SELECT {}, EXISTS (SELECT 1 FROM {} WHERE {} = 2) FROM {}", ta, u, ua, t), vec![t, u]),
        9 => (format!("SELECT x.{} FROM {} AS x WHERE EXISTS (SELECT 1 FROM {} AS y WHERE y.{} = x.{})", ta, t, u, ua, ta), vec![t, u]),
        10 => (format!("SELECT {} FROM {} GROUP BY {} HAVING {} IN (SELECT {} FROM {})", ta, t, ta, ta, ua, u), vec![t, u]),
        11 => (format!("SELECT '{}', {} FROM {}", lit, ta, t), vec![t]),
        12 => (format!("SELECT {} FROM {} ORDER BY {} IN (SELECT {} FROM {}), {}", ta, t, ta, ua, u, ta), vec![t, u]),
        _ => (format!("SELECT {} FROM {} WHERE {} > 1", ta, t, ta), vec![t]),
    };
    Q { text, named: named.iter().map(|s| s.to_uppercase()).collect() }
}

/// a textual variant: `sig_equal` variants change only case / blanks / comments outside quotes
fn variant(r: &mut Rng, text: &str, touch_literals: bool) -> String {
    let mut out = String::new();
    let mut in_q: Option<char> = None;
    for c in text.chars() {
        match in_q {
            Some(d) => {
                if c == d {
                    in_q = None;
                    out.push(c);
                } else if touch_literals && c == ' ' && r.chance(1, 2) {
                    out.push_str("  ");
                } else if touch_literals && c.is_ascii_alphabetic() && r.chance(1, 2) {
                    out.push(if c.is_ascii_uppercase() { c.to_ascii_lowercase() } else { c.to_ascii_uppercase() });
                } else {
                    out.push(c);
                }
            }
            None => {
                if c == '\'' || c == '"' || c == '`' {
                    in_q = Some(c);
                    out.push(c);
                } else if c == ' ' {
                    match r.below(8) {
                        0 => out.push_str("  "),
                        1 => out.push('\t'),
                        2 => out.push('\n'),
                        3 => out.push_str(" -- note\n"),
                        4 => out.push('\u{a0}'),
                        _ => out.push(' '),
                    }
                } else if c.is_ascii_alphabetic() && r.chance(1, 3) {
                    out.push(if c.is_ascii_uppercase() { c.to_ascii_lowercase() } else { c.to_ascii_uppercase() });
                } else {
                    out.push(c);
                }
            }
        }
    }
    if r.chance(1, 6) {
        out.push_str("  ");
    }
    if r.chance(1, 8) {
        out.insert(0, ' ');
    }
    out
}

// ---------------------------------------------------------------- histories

fn setup(c: &mut Cached, r: &mut Rng, with_views: bool) {
    let stmts = [
        "CREATE TABLE t0 (a INTEGER, b VARCHAR(10))",
        "CREATE TABLE t1 (a INTEGER, b VARCHAR(10))",
        "CREATE TABLE t2 (a INTEGER, b VARCHAR(10))",
        "CREATE TABLE p (id INTEGER PRIMARY KEY)",
        "CREATE TABLE c (id INTEGER, pid INTEGER, FOREIGN KEY (pid) REFERENCES p(id) ON DELETE CASCADE)",
    ];
    for s in stmts {
        let (a, _) = c.write(s, vec![]);
        assert!(a.is_ok(), "setup: {} => {}", s, a.brief());
    }
    if with_views {
        for s in ["CREATE VIEW v0 AS SELECT a, b FROM t0", "CREATE VIEW v1 AS SELECT x.a, y.b FROM t1 AS x JOIN t2 AS y ON x.a = y.a"] {
            let (a, _) = c.write(s, vec![]);
            assert!(a.is_ok(), "setup: {} => {}", s, a.brief());
        }
    }
    for t in ["t0", "t1", "t2"] {
        for _ in 0..r.range(1, 4) {
            let s = format!("INSERT INTO {} VALUES ({}, '{}')", t, r.range(1, 4), r.pick(LITS));
            c.write(&s, vec![]);
        }
    }
    for i in 1..=4 {
        c.write(&format!("INSERT INTO p VALUES ({})", i), vec![]);
    }
    for i in 1..=5 {
        c.write(&format!("INSERT INTO c VALUES ({}, {})", i * 10, r.range(1, 4)), vec![]);
    }
}

#[derive(Default)]
struct HistoryOpts {
    views: bool,
    cascade: bool,
    rollback: bool,
    ddl: bool,
}

/// classify a stale / foreign answer: which recorded finding class explains it, if any
fn classify(c: &Cached, q: &Q, since: usize) -> Option<&'static str> {
    let deps: BTreeSet<String> = q.named.iter().flat_map(|n| base_of(n)).collect();
    let named: BTreeSet<String> = q.named.iter().cloned().collect();
    let mut classes: BTreeSet<&'static str> = BTreeSet::new();
    let mut any = false;
    for effs in &c.effects[since.min(c.effects.len())..] {
        for e in effs {
            match e {
                Effect::Direct(t) => {
                    if named.iter().any(|n| n.eq_ignore_ascii_case(t)) {
                        // an announced write on an extracted table must have removed the entry
                        return None;
                    }
                    if deps.contains(t) {
                        any = true;
                        classes.insert("C25/view-dependency");
                    }
                }
                Effect::Cascade(t) | Effect::Rollback(t) => {
                    if deps.contains(t) {
                        any = true;
                        classes.insert("C25/indirect-write");
                    }
                }
                Effect::Ddl(t) => {
                    if deps.contains(t) || named.contains(t) {
                        any = true;
                        classes.insert("C25/ddl-not-invalidating");
                    }
                }
            }
        }
    }
    if !any {
        return None;
    }
    classes.into_iter().next()
}

fn run_history(seed_rng: &mut Rng, opts: &HistoryOpts, len: usize, model: &mut model::Model, rep: &mut Report, id: &str) {
    let mut r = seed_rng.fork();
    let max = match r.below(5) {
        0 => 1,
        1 => 2,
        2 => 3,
        3 => 0,
        _ => 10000,
    };
    let mut c = Cached::new(max);
    let t_setup = std::time::Instant::now();
    setup(&mut c, &mut r, opts.views);
    T_SETUP.fetch_add(t_setup.elapsed().as_micros() as u64, std::sync::atomic::Ordering::Relaxed);
    // pool of queries, each with textual variants
    let mut pool: Vec<(Q, Vec<String>)> = vec![];
    for _ in 0..r.range(4, 8) {
        let q = gen_query(&mut r, opts.views);
        let mut vs = vec![q.text.clone()];
        for _ in 0..r.range(0, 2) {
            vs.push(variant(&mut r, &q.text, false));
        }
        if q.text.contains('\'') && r.chance(1, 2) {
            // a *different* query: same text up to literal case / inner blanks
            let v = variant(&mut r, &q.text, true);
            pool.push((Q { text: v.clone(), named: q.named.clone() }, vec![v]));
        }
        pool.push((q, vs));
    }
    let mut stale_hits = 0u64;
    let mut reads = 0u64;
    let mut hits_after_write = 0u64;
    let mut wrote_since_read = false;
    for _ in 0..len {
        let k = r.below(100);
        if k < 58 {
            let (q, vs) = r.pick(&pool).clone();
            let text = r.pick(&vs).clone();
            let res = c.read(&text);
            reads += 1;
            if res.hit && wrote_since_read {
                hits_after_write += 1;
            }
            if !same_answer(&res.cached, &res.twin) {
                stale_hits += 1;
                let sig = if res.hit { classify(&c, &q, res.inserted_at.unwrap_or(0)) } else { None };
                rep.fail(
                    FailKind::Oracle,
                    sig,
                    if res.hit { "cache hit returns a result that differs from executing the query on the current database" } else { "cache-backed execution (miss path) differs from plain execution" },
                    &format!(
                        "capacity {}\nSQL script (cache-backed executor, adapter protocol):\n{};\n-- last statement: cached answer {}\n-- uncached twin      : {}\n-- entry inserted at statement #{:?}; effects since: {:?}\n",
                        c.max,
                        c.script.join(";\n"),
                        res.cached.brief(),
                        res.twin.brief(),
                        res.inserted_at,
                        &c.effects[res.inserted_at.unwrap_or(0).min(c.effects.len())..].iter().flatten().collect::<Vec<_>>()
                    ),
                );
                // keep going from a coherent state: drop the stale entry
                c.cache.clear();
                c.trace.clear();
                c.expect.clear();
                c.keys.clear();
            }
        } else if k < 90 {
            wrote_since_read = true;
            let t = *r.pick(&["t0", "t1", "t2"]);
            let u = *r.pick(&["t0", "t1", "t2"]);
            // keep tables small: INSERT … SELECT between tables would otherwise grow them
            // geometrically (and push the engine onto its parallel paths)
            let big = |c: &Cached, n: &str| c.db.scan(n).map(|v| v.len()).unwrap_or(0) > 12;
            let choice = if big(&c, t) { 4 } else if big(&c, u) && r.chance(1, 2) { 0 } else { r.below(7) };
            let s = match choice {
                0 | 1 => format!("INSERT INTO {} VALUES ({}, '{}')", t, r.range(1, 5), r.pick(LITS)),
                2 => format!("UPDATE {} SET a = a + 1 WHERE a = {}", t, r.range(1, 4)),
                3 => format!("UPDATE {} SET b = '{}' WHERE a IN (SELECT a FROM {})", t, r.pick(LITS), u),
                4 => {
                    if big(&c, t) {
                        format!("DELETE FROM {} WHERE a >= {}", t, r.range(1, 3))
                    } else {
                        format!("DELETE FROM {} WHERE a = {}", t, r.range(1, 5))
                    }
                }
                5 if !big(&c, u) => format!("INSERT INTO {} SELECT a + 1, b FROM {}", t, u),
                5 => format!("INSERT INTO {} VALUES ({}, '{}')", t, r.range(1, 5), r.pick(LITS)),
                _ => format!("insert into {} values ({}, '{}')", t.to_uppercase(), r.range(1, 5), r.pick(LITS)),
            };
            let (a, b) = c.write(&s, vec![]);
            if !same_answer(&a, &b) {
                rep.fail(FailKind::Oracle, None, "write statement behaves differently on the twin databases", &format!("{};\n=> {} vs {}", c.script.join(";\n"), a.brief(), b.brief()));
            }
        } else if k < 93 {
            wrote_since_read = true;
            let t = *r.pick(&["t0", "t1", "t2"]);
            c.write(&format!("DROP TABLE {}", t), vec![]);
            c.write(&format!("CREATE TABLE {} (a INTEGER, b VARCHAR(10))", t), vec![]);
            c.write(&format!("INSERT INTO {} VALUES ({}, '{}')", t, r.range(1, 4), r.pick(LITS)), vec![]);
            rep.count("op_drop_create");
        } else if k < 95 && opts.cascade {
            wrote_since_read = true;
            c.write(&format!("DELETE FROM p WHERE id = {}", r.range(1, 4)), vec![Effect::Cascade("C".into())]);
            rep.count("op_cascade_delete");
        } else if k < 97 && opts.rollback {
            wrote_since_read = true;
            let t = *r.pick(&["t0", "t1", "t2"]);
            c.write("BEGIN", vec![]);
            c.write(&format!("INSERT INTO {} VALUES (9, 'tx')", t), vec![]);
            let (q, vs) = r.pick(&pool).clone();
            let _ = q;
            let text = r.pick(&vs).clone();
            let res = c.read(&text);
            if !same_answer(&res.cached, &res.twin) && !res.hit {
                rep.fail(FailKind::Oracle, None, "miss path differs inside a transaction", &c.script.join(";\n"));
            }
            c.write("ROLLBACK", vec![]);
            rep.count("op_rollback");
        } else if k < 99 && opts.ddl {
            wrote_since_read = true;
            if opts.views && r.chance(1, 2) {
                c.write("DROP VIEW v0", vec![Effect::Ddl("V0".into())]);
                c.write("CREATE VIEW v0 AS SELECT a + 100 AS a, b FROM t0", vec![Effect::Ddl("V0".into())]);
            } else {
                let t = *r.pick(&["t0", "t1", "t2"]);
                let col = format!("z{}", r.below(1000));
                c.write(&format!("ALTER TABLE {} ADD COLUMN {} INTEGER", t, col), vec![Effect::Ddl(t.to_uppercase())]);
            }
            rep.count("op_ddl");
        } else {
            // a read of something never cached: errors are not cached
            let res = c.read("SELECT * FROM no_such_table");
            if !same_answer(&res.cached, &res.twin) {
                rep.fail(FailKind::Oracle, None, "error path differs", &c.script.join(";\n"));
            }
        }
    }
    c.model_check(model, rep, "history");
    rep.add("history_reads", reads);
    rep.add("history_hits", c.hits);
    rep.add("history_misses", c.misses);
    rep.add("history_evictions", c.evictions);
    rep.add("history_hits_after_a_write", hits_after_write);
    rep.add("history_stale_answers", stale_hits);
    rep.count(&format!("capacity_{}", max));
    // non-trivial: the history had at least one hit, one invalidating write and a later hit or miss of a cached key
    rep.case(&format!("{} {}", id, c.script.join(";")), c.hits >= 1 && c.misses >= 2 && hits_after_write >= 1);
}

// ---------------------------------------------------------------- signature pairs

/// quoted regions of a text, specified directly (matching delimiter closes; `--` comments and
/// blanks only matter outside): independent of the engine and of the model
fn regions(sql: &str) -> Vec<(char, String)> {
    let cs: Vec<char> = sql.chars().collect();
    let mut out = vec![];
    let mut i = 0;
    while i < cs.len() {
        let c = cs[i];
        if c == '-' && cs.get(i + 1) == Some(&'-') {
            while i < cs.len() && cs[i] != '\n' {
                i += 1;
            }
        } else if c == '\'' || c == '"' || c == '`' {
            let mut body = String::new();
            i += 1;
            while i < cs.len() && cs[i] != c {
                body.push(cs[i]);
                i += 1;
            }
            out.push((c, body));
        }
        i += 1;
    }
    out
}

fn check_pair(a: &str, b: &str, model: &mut model::Model, rep: &mut Report, what: &str) -> (bool, bool) {
    let real = QuerySignature::from_sql(a) == QuerySignature::from_sql(b);
    let m = model.ask(&format!("sigeq {} {}", hx(a), hx(b)));
    let me = m == "1";
    if (m != "1" && m != "0") || me != real {
        rep.fail(
            FailKind::ModelDiff,
            None,
            &format!("{}: QuerySignature equality of two texts differs from equality of the model's normal forms", what),
            &format!("text 1: {:?}\ntext 2: {:?}\ncode: signatures equal = {}\nmodel: {}\nmodel normal forms: {} / {}", a, b, real, m, model.ask(&format!("norm {}", hx(a))), model.ask(&format!("norm {}", hx(b)))),
        );
    }
    // direct oracle for (A): equal keys ⇒ the lexer sees the same token stream
    let (ta, tb) = (tokens(a), tokens(b));
    let same_tokens = ta.is_some() && ta == tb;
    if real && ta != tb {
        rep.fail(
            FailKind::Oracle,
            None,
            &format!("{}: two texts with different token streams share a cache key", what),
            &format!("text 1: {:?}\ntext 2: {:?}\ntokens 1: {:?}\ntokens 2: {:?}", a, b, ta, tb),
        );
    }
    // signature level: different quoted text ⇒ different keys
    if real && regions(a) != regions(b) {
        rep.fail(
            FailKind::Oracle,
            None,
            &format!("{}: two texts whose string literals / delimited identifiers differ share a cache key", what),
            &format!("text 1: {:?}\ntext 2: {:?}\nquoted regions 1: {:?}\nquoted regions 2: {:?}", a, b, regions(a), regions(b)),
        );
    }
    (real, same_tokens)
}

/// cache level, as the property states it: run text 1 (cached), then text 2 through the cache
/// and fresh on the twin; a hit must not return other rows than the fresh execution
fn literal_cache_cases(rng: &mut Rng, n: u64, model: &mut model::Model, rep: &mut Report) {
    let mut c = Cached::new(10000);
    for s in ["CREATE TABLE t0 (a INTEGER, b VARCHAR(20))"] {
        c.write(s, vec![]);
    }
    for (i, l) in LITS.iter().enumerate() {
        c.write(&format!("INSERT INTO t0 VALUES ({}, '{}')", i, l), vec![]);
    }
    let mut served_from_cache = 0u64;
    for i in 0..n {
        let mut r = rng.fork();
        let lit = *r.pick(LITS);
        let lit2 = *r.pick(LITS);
        let base = match r.below(7) {
            0 => format!("SELECT '{}'", lit),
            1 => format!("SELECT a, b FROM t0 WHERE b = '{}'", lit),
            2 => format!("SELECT a FROM t0 WHERE b = '{}' OR b = '{}'", lit, lit2),
            3 => format!("SELECT a AS \"c'{}\" FROM t0 WHERE b = '{}'", if r.chance(1, 2) { "X  y" } else { "x y" }, lit),
            4 => format!("SELECT '{}' -- it's \"quoted\n , a FROM t0 WHERE b <> '{}'", lit, lit2),
            5 => format!("SELECT a FROM t0 WHERE b IN ('{}', '{}') AND a >= 0", lit, lit2),
            _ => format!("SELECT '{}', `a`, \"b\" FROM t0 WHERE a = {}", lit, r.below(12)),
        };
        // text 2: differs only inside quoted regions, or only outside them
        let inside = r.chance(2, 3);
        let second = variant(&mut r, &base, inside);
        let second = if inside { second } else { variant(&mut r, &second, false) };
        let first = c.read(&base);
        let res = c.read(&second);
        if res.hit {
            served_from_cache += 1;
        }
        let differ_inside = regions(&base) != regions(&second);
        rep.case(&format!("litcache {} | {}", base, second), base != second);
        rep.count(if differ_inside { "literal_pairs_differing_inside_quotes" } else { "literal_pairs_differing_outside_quotes_only" });
        if res.hit && differ_inside {
            rep.count("hit_although_quoted_text_differs");
        }
        if !same_answer(&first.cached, &first.twin) || !same_answer(&res.cached, &res.twin) {
            rep.fail(
                FailKind::Oracle,
                None,
                "a query is served the cached result of a different query (texts differ inside a string literal / delimited identifier)",
                &format!("{};\n-- text 1: {:?}\n-- text 2: {:?}\n-- text 2 through the cache (hit={}): {}\n-- text 2 executed fresh: {}", c.script.join(";\n"), base, second, res.hit, res.cached.brief(), res.twin.brief()),
            );
            c.cache.clear();
            c.trace.clear();
            c.expect.clear();
            c.keys.clear();
        }
        check_pair(&base, &second, model, rep, "literal pair");
        if i < 2 {
            rep.sample(serde_json::json!({"kind": "literal pair through the cache", "text1": base, "text2": second, "hit": res.hit}));
        }
        if c.script.len() > 400 {
            c.model_check(model, rep, "literal cache cases");
            c.script.truncate(16);
            c.trace.clear();
            c.expect.clear();
            c.cache.clear();
            c.keys.clear();
        }
    }
    rep.add("literal_pairs_second_text_served_from_cache", served_from_cache);
    c.model_check(model, rep, "literal cache cases");
}

fn sig_probes(model: &mut model::Model, rep: &mut Report) {
    // (text1, text2, must share a key?)
    let corpus: &[(&str, &str, bool)] = &[
        ("SELECT 'A'", "SELECT 'a'", false),
        ("SELECT 'say \"Hi\"'", "SELECT 'say \"hi\"'", false),
        ("SELECT 'it`s  A'", "SELECT 'it`s A'", false),
        ("SELECT \"a'B\" FROM t", "SELECT \"a'b\" FROM t", false),
        ("SELECT `a\"B` FROM t", "SELECT `a\"b` FROM t", false),
        ("SELECT 'x''\"Q  r'", "SELECT 'x''\"Q r'", false),
        ("SELECT 1 -- \"c\n, 'A'", "SELECT 1 -- \"c\n, 'a'", false),
        ("SELECT 'a`' , 'B'", "SELECT 'a`' , 'b'", false),
        ("SELECT 'say \"Hi\"' FROM T", "select  'say \"Hi\"'\nfrom t", true),
        ("SELECT 'a\"' , X", "SELECT 'a\"' , x", true),
        ("SELECT 'a  b'", "SELECT 'a b'", false),
        ("SELECT \"Ab\" FROM t", "SELECT \"ab\" FROM t", false),
        ("SELECT `Ab` FROM t", "SELECT `ab` FROM t", false),
        ("SELECT 1 -- c\n+1", "SELECT 1 -- c +1", false),
        ("SELECT 1 -- it's\n, 'A'", "SELECT 1 -- it's\n, 'a'", false),
        ("SELECT 'it''s A'", "SELECT 'it''s a'", false),
        ("SELECT 'a' 'b'", "SELECT 'a''b'", false),
        ("SELECT 'x' FROM t -- 'Q'", "SELECT 'x' FROM t -- 'q'", true),
        ("SELECT * FROM users", "select  *\tfrom\nUSERS ", true),
        ("SELECT a FROM t WHERE b = 'X'", "select A from T where B = 'X'", true),
        ("SELECT a FROM t WHERE b = 'X'", "select A from T where B = 'x'", false),
        ("SELECT 1 - -1", "SELECT 1 --1", false),
        ("SELECT 1\u{a0}+ 1", "SELECT 1 + 1", true),
        ("SELECT 1", "SELECT 1 -- trailing", true),
        ("SELECT 12", "SELECT 1 2", false),
        ("", "   ", true),
        ("SELECT 'unterminated A", "SELECT 'unterminated a", false),
        ("SELECT a-- x\n-1 FROM t", "SELECT a -1 FROM t", true),
    ];
    for (a, b, want) in corpus {
        let (real, _) = check_pair(a, b, model, rep, "probe");
        rep.case(&format!("sigprobe {} | {}", a, b), true);
        rep.count("sig_probe_pairs");
        if real != *want {
            rep.fail(
                FailKind::Oracle,
                None,
                if *want { "two texts that differ only in what the lexer ignores get different cache keys (lost hit)" } else { "two texts that can differ in result share a cache key" },
                &format!("text 1: {:?}\ntext 2: {:?}\nsignatures equal: {}", a, b, real),
            );
        }
        let old = model.ask(&format!("oldeq {} {}", hx(a), hx(b)));
        if old == "1" && !*want {
            rep.count("pairs_the_pre_repair_normaliser_conflated");
        }
    }
}

fn gen_text(r: &mut Rng) -> String {
    let idents = ["t", "T1", "users", "a", "b", "Col", "x_y"];
    let lits = [
        "'A'", "'a'", "'a b'", "'a  b'", "'it''s'", "''", "'-- no'", "\"Id\"", "\"id\"", "`q`", "'x\ny'",
        "'say \"Hi\"'", "'say \"hi\"  x'", "'it`s  A'", "\"a'B  c\"", "`a'B\"C`", "'x''\"Q  r'", "'p`q\"R''s T'", "\"w`X y\"",
    ];
    let kws = ["SELECT", "select", "FROM", "WHERE", "and", "OR", "IN", "(", ")", ",", "=", "<", "+", "-", "*", "1", "23", "4.5"];
    let mut s = String::new();
    for i in 0..r.range(1, 12) {
        if i > 0 {
            match r.below(10) {
                0 => {}
                1 => s.push_str("  "),
                2 => s.push('\n'),
                3 => s.push_str(" -- c'omment\n"),
                4 => s.push('\t'),
                _ => s.push(' '),
            }
        }
        match r.below(4) {
            0 => s.push_str(*r.pick(&idents)),
            1 => s.push_str(*r.pick(&lits)),
            _ => s.push_str(*r.pick(&kws)),
        }
    }
    s
}

fn mutate_text(r: &mut Rng, s: &str) -> String {
    let chars: Vec<char> = s.chars().collect();
    if chars.is_empty() {
        return " ".into();
    }
    let mut v = chars.clone();
    for _ in 0..r.range(1, 3) {
        let i = r.below(v.len() as u64) as usize;
        match r.below(7) {
            0 => {
                let c = v[i];
                v[i] = if c.is_ascii_uppercase() { c.to_ascii_lowercase() } else { c.to_ascii_uppercase() };
            }
            1 => v.insert(i, ' '),
            2 => {
                if v[i].is_whitespace() {
                    v.remove(i);
                }
            }
            3 => v.insert(i, '\n'),
            4 => {
                if v[i] == '\n' {
                    v[i] = ' ';
                }
            }
            5 => v.insert(i, '\''),
            _ => {
                if v[i] == ' ' {
                    v[i] = '\u{2003}';
                }
            }
        }
        if v.is_empty() {
            break;
        }
    }
    v.into_iter().collect()
}

// ---------------------------------------------------------------- table extraction

#[derive(Clone, Debug)]
enum MSel {
    Sel { from: MFrom, list: MExpr, wh: MExpr, gb: MExpr, hv: MExpr, ob: MExpr, ctes: Vec<(String, MSel)>, setop: Option<Box<MSel>> },
}
#[derive(Clone, Debug)]
enum MFrom {
    None,
    Table(String),
    Join(Box<MFrom>, Box<MFrom>, MExpr),
    Sub(Box<MSel>),
}
#[derive(Clone, Debug)]
enum MExpr {
    Leaf(String),
    Node(String, Vec<MExpr>),
    Sub(String, Box<MSel>, Option<Box<MExpr>>),
}

struct TGen {
    names: Vec<String>,
    alias: u32,
}

impl TGen {
    fn name(&mut self, r: &mut Rng) -> String {
        let base = ["t0", "T1", "Orders", "s.t3", "S2.T4", "v_x", "u"];
        let n = r.pick(&base).to_string();
        self.names.push(n.clone());
        n
    }
    fn sel(&mut self, r: &mut Rng, d: u32) -> MSel {
        let from = if r.chance(1, 10) { MFrom::None } else { self.from(r, d) };
        let e = |g: &mut TGen, r: &mut Rng, p: u64| if r.chance(p, 10) { g.expr(r, d) } else { MExpr::Leaf("1".into()) };
        let list = e(self, r, 5);
        let wh = e(self, r, 5);
        let gb = e(self, r, 2);
        let hv = e(self, r, 2);
        let ob = e(self, r, 2);
        let mut ctes = vec![];
        if d > 0 && r.chance(1, 6) {
            for _ in 0..r.range(1, 2) {
                self.alias += 1;
                ctes.push((format!("cte{}", self.alias), self.sel(r, d - 1)));
            }
        }
        let setop = if d > 0 && r.chance(1, 6) { Some(Box::new(self.sel(r, d - 1))) } else { None };
        MSel::Sel { from, list, wh, gb, hv, ob, ctes, setop }
    }
    fn from(&mut self, r: &mut Rng, d: u32) -> MFrom {
        match r.below(if d > 0 { 6 } else { 3 }) {
            0..=2 => MFrom::Table(self.name(r)),
            3 | 4 => {
                let l = self.from(r, d - 1);
                let rr = self.from(r, d - 1);
                let on = if r.chance(1, 2) { self.expr(r, d - 1) } else { MExpr::Leaf("1 = 1".into()) };
                MFrom::Join(Box::new(l), Box::new(rr), on)
            }
            _ => MFrom::Sub(Box::new(self.sel(r, d - 1))),
        }
    }
    fn expr(&mut self, r: &mut Rng, d: u32) -> MExpr {
        if d == 0 {
            return MExpr::Leaf(r.pick(&["1", "c1", "'s'", "NULL"]).to_string());
        }
        match r.below(16) {
            0 => MExpr::Node("+".into(), vec![self.expr(r, d - 1), self.expr(r, d - 1)]),
            1 => MExpr::Node("and".into(), vec![self.expr(r, d - 1), self.expr(r, d - 1)]),
            2 => MExpr::Node("not".into(), vec![self.expr(r, d - 1)]),
            3 => MExpr::Node("coalesce".into(), vec![self.expr(r, d - 1), self.expr(r, d - 1)]),
            4 => MExpr::Node("case".into(), vec![self.expr(r, d - 1), self.expr(r, d - 1), self.expr(r, d - 1)]),
            5 => MExpr::Node("between".into(), vec![self.expr(r, d - 1), self.expr(r, d - 1), self.expr(r, d - 1)]),
            6 => MExpr::Node("inlist".into(), vec![self.expr(r, d - 1), self.expr(r, d - 1), self.expr(r, d - 1)]),
            7 => MExpr::Node("like".into(), vec![self.expr(r, d - 1), self.expr(r, d - 1)]),
            8 => MExpr::Node("cast".into(), vec![self.expr(r, d - 1)]),
            9 => MExpr::Node("isnull".into(), vec![self.expr(r, d - 1)]),
            10 => MExpr::Node("count".into(), vec![self.expr(r, d - 1)]),
            11 => MExpr::Sub("scalar".into(), Box::new(self.sel(r, d - 1)), None),
            12 => MExpr::Sub("exists".into(), Box::new(self.sel(r, d - 1)), None),
            13 => MExpr::Sub("in".into(), Box::new(self.sel(r, d - 1)), Some(Box::new(self.expr(r, d - 1)))),
            14 => MExpr::Sub("all".into(), Box::new(self.sel(r, d - 1)), Some(Box::new(self.expr(r, d - 1)))),
            _ => MExpr::Leaf(r.pick(&["1", "c1", "'s'"]).to_string()),
        }
    }
}

fn sql_sel(s: &MSel) -> String {
    let MSel::Sel { from, list, wh, gb, hv, ob, ctes, setop } = s;
    let mut out = String::new();
    if !ctes.is_empty() {
        out.push_str("WITH ");
        out.push_str(&ctes.iter().map(|(n, q)| format!("{} AS ({})", n, sql_sel(q))).collect::<Vec<_>>().join(", "));
        out.push(' ');
    }
    out.push_str(&format!("SELECT {} AS c1", sql_expr(list)));
    if !matches!(from, MFrom::None) {
        out.push_str(&format!(" FROM {}", sql_from(from)));
    }
    out.push_str(&format!(" WHERE {}", sql_expr(wh)));
    out.push_str(&format!(" GROUP BY {}", sql_expr(gb)));
    out.push_str(&format!(" HAVING {}", sql_expr(hv)));
    if setop.is_none() {
        out.push_str(&format!(" ORDER BY {}", sql_expr(ob)));
    }
    if let Some(q) = setop {
        out.push_str(&format!(" UNION {}", sql_sel(q)));
    }
    out
}

fn sql_from(f: &MFrom) -> String {
    match f {
        MFrom::None => String::new(),
        MFrom::Table(n) => n.clone(),
        MFrom::Join(l, r, on) => {
            let rs = match **r {
                MFrom::Join(..) => format!("({})", sql_from(r)),
                _ => sql_from(r),
            };
            format!("{} JOIN {} ON {}", sql_from(l), rs, sql_expr(on))
        }
        MFrom::Sub(q) => format!("({}) AS d", sql_sel(q)),
    }
}

fn sql_expr(e: &MExpr) -> String {
    match e {
        MExpr::Leaf(s) => s.clone(),
        MExpr::Node(op, xs) => {
            let a: Vec<String> = xs.iter().map(sql_expr).collect();
            match op.as_str() {
                "+" => format!("({} + {})", a[0], a[1]),
                "and" => format!("({} AND {})", a[0], a[1]),
                "not" => format!("(NOT {})", a[0]),
                "coalesce" => format!("COALESCE({}, {})", a[0], a[1]),
                "case" => format!("CASE WHEN {} THEN {} ELSE {} END", a[0], a[1], a[2]),
                "between" => format!("({} BETWEEN {} AND {})", a[0], a[1], a[2]),
                "inlist" => format!("({} IN ({}, {}))", a[0], a[1], a[2]),
                "like" => format!("({} LIKE {})", a[0], a[1]),
                "cast" => format!("CAST({} AS INTEGER)", a[0]),
                "isnull" => format!("({} IS NULL)", a[0]),
                _ => format!("COUNT({})", a[0]),
            }
        }
        MExpr::Sub(kind, q, lhs) => match kind.as_str() {
            "scalar" => format!("({})", sql_sel(q)),
            "exists" => format!("EXISTS ({})", sql_sel(q)),
            "in" => format!("({} IN ({}))", sql_expr(lhs.as_ref().unwrap()), sql_sel(q)),
            _ => format!("({} > ALL ({}))", sql_expr(lhs.as_ref().unwrap()), sql_sel(q)),
        },
    }
}

fn sx_sel(s: &MSel) -> String {
    let MSel::Sel { from, list, wh, gb, hv, ob, ctes, setop } = s;
    // ORDER BY is not rendered when there is a set operation
    let ob_sx = if setop.is_none() { sx_expr(ob) } else { "l".to_string() };
    format!(
        "(sel {} {} {} {} {} {} ({}) ({}))",
        sx_from(from),
        sx_expr(list),
        sx_expr(wh),
        sx_expr(gb),
        sx_expr(hv),
        ob_sx,
        ctes.iter().map(|(_, q)| sx_sel(q)).collect::<Vec<_>>().join(" "),
        setop.as_ref().map(|q| sx_sel(q)).unwrap_or_default()
    )
}

fn sx_from(f: &MFrom) -> String {
    match f {
        MFrom::None => "none".into(),
        // unquoted identifiers reach the AST upper-cased by the lexer
        MFrom::Table(n) => format!("(t {})", hx(&n.to_uppercase())),
        MFrom::Join(l, r, on) => format!("(j {} {} {})", sx_from(l), sx_from(r), sx_expr(on)),
        MFrom::Sub(q) => format!("(s {})", sx_sel(q)),
    }
}

fn sx_expr(e: &MExpr) -> String {
    match e {
        MExpr::Leaf(_) => "l".into(),
        MExpr::Node(_, xs) => {
            let mut acc = "l".to_string();
            for x in xs {
                acc = format!("(n {} {})", acc, sx_expr(x));
            }
            acc
        }
        MExpr::Sub(_, q, lhs) => match lhs {
            Some(l) => format!("(n {} (s {}))", sx_expr(l), sx_sel(q)),
            None => format!("(s {})", sx_sel(q)),
        },
    }
}

fn tables_case(sql: &str, sx: &str, placed: &[String], model: &mut model::Model, rep: &mut Report) -> bool {
    let real = match real_tables(sql) {
        Some(v) => v,
        None => {
            rep.count("tables_case_unparsable");
            return false;
        }
    };
    let reply = model.ask(&format!("tables {}", sx));
    let m: Option<Vec<String>> = model_list(&reply, "t").map(|v| v.iter().filter_map(|x| x.as_atom().and_then(sx::unhex_str)).collect());
    if m.as_ref() != Some(&real) {
        rep.fail(
            FailKind::ModelDiff,
            None,
            "extract_tables_from_select differs from the model's extractTables",
            &format!("SQL: {}\nmodel request: tables {}\ncode:  {:?}\nmodel: {}", sql, sx, real, reply),
        );
    }
    // direct oracle for the syntactic part of (B): every name placed in a FROM position is reported
    let want: BTreeSet<String> = placed.iter().map(|n| n.rsplit('.').next().unwrap().to_uppercase()).collect();
    let got: BTreeSet<String> = real.iter().cloned().collect();
    if !want.is_subset(&got) {
        rep.fail(
            FailKind::Oracle,
            None,
            "a table referenced in the query text is missing from the extracted dependency set",
            &format!("SQL: {}\nreferenced: {:?}\nextracted: {:?}", sql, want, got),
        );
    }
    want.len() >= 2
}

// ---------------------------------------------------------------- raw cache traces

fn raw_trace(r: &mut Rng, model: &mut model::Model, rep: &mut Report) {
    let max = r.below(5) as usize;
    let cache = QueryResultCache::new(max);
    let texts = ["SELECT 1", "select  1", "SELECT 'A'", "SELECT 'a'", "SELECT * FROM t", "select * from T -- x", "SELECT * FROM u", "SELECT a FROM t, u"];
    let tabs = ["T", "t", "U", "Orders", "ORDERS", "x"];
    let mut trace = vec![];
    let mut expect = vec![];
    let mut known: Vec<String> = vec![];
    let n = r.range(5, 40);
    let mut evictions = 0;
    let mut hits = 0;
    for _ in 0..n {
        match r.below(10) {
            0..=2 => {
                let q = *r.pick(&texts);
                let got = cache.get(&QuerySignature::from_sql(q));
                trace.push(format!("(get {})", hx(q)));
                match got {
                    Some((rows, _)) => {
                        hits += 1;
                        let tag = match rows.first().and_then(|r| r.values.first()) {
                            Some(SqlValue::Integer(i)) => *i,
                            _ => -1,
                        };
                        expect.push(format!("(hit {})", tag));
                    }
                    None => expect.push("miss".into()),
                }
            }
            3..=6 => {
                let q = *r.pick(&texts);
                let tag = r.range(0, 999);
                let mut ts: HashSet<String> = HashSet::new();
                for _ in 0..r.range(0, 3) {
                    ts.insert(r.pick(&tabs).to_string());
                }
                let mut tl: Vec<String> = ts.iter().cloned().collect();
                tl.sort();
                let sig = QuerySignature::from_sql(q);
                let before: Vec<String> = known.iter().filter(|k| cache.contains(&QuerySignature::from_sql(k))).cloned().collect();
                let size_before = cache.stats().size;
                use vibesql_catalog::TableSchema;
                use vibesql_executor::schema::CombinedSchema;
                let schema = CombinedSchema::from_table("result".to_string(), TableSchema::new("result".to_string(), vec![]));
                cache.insert(sig.clone(), vec![Row::new(vec![SqlValue::Integer(tag)])], schema, ts);
                let mut victim: Option<String> = None;
                for k in &before {
                    let ks = QuerySignature::from_sql(k);
                    if ks != sig && !cache.contains(&ks) {
                        victim = Some(k.clone());
                    }
                }
                if victim.is_none() && size_before >= max && size_before > 0 {
                    victim = before.iter().find(|k| QuerySignature::from_sql(k) == sig).cloned();
                }
                if victim.is_some() {
                    evictions += 1;
                }
                trace.push(format!("(ins {} {} ({}) {})", hx(q), tag, tl.iter().map(|n| hx(n)).collect::<Vec<_>>().join(" "), victim.as_deref().map(hx).unwrap_or_else(|| "none".into())));
                expect.push("ok".into());
                if !known.iter().any(|k| k == q) {
                    known.push(q.to_string());
                }
            }
            7 | 8 => {
                let t = *r.pick(&tabs);
                cache.invalidate_table(t);
                trace.push(format!("(inv {})", hx(t)));
                expect.push("ok".into());
            }
            _ => {
                trace.push("(size)".into());
                expect.push(format!("{}", cache.stats().size));
            }
        }
    }
    let reply = model.ask(&format!("trace {} {}", max, trace.join(" ")));
    let got: Option<Vec<String>> = model_list(&reply, "r").map(|v| v.iter().map(|x| x.to_string()).collect());
    rep.traces_validated += 1;
    rep.case(&format!("raw {} {}", max, trace.join(" ")), hits >= 1 && evictions >= 1);
    rep.count(&format!("raw_trace_capacity_{}", max));
    if got.as_ref() != Some(&expect) {
        rep.fail(
            FailKind::ModelDiff,
            None,
            "QueryResultCache get/insert/invalidate_table differs from the model state machine",
            &format!("capacity {}\nops:   {}\ncode:  {}\nmodel: {}", max, trace.join(" "), expect.join(" "), reply),
        );
    }
}

// ---------------------------------------------------------------- deterministic probes of the findings

fn finding_probe(rep: &mut Report, model: &mut model::Model, name: &str, opts: HistoryOpts, steps: &[(&str, Vec<Effect>)], q: Q, expect_stale: bool) {
    let mut c = Cached::new(100);
    let mut r = Rng::new(7);
    setup(&mut c, &mut r, opts.views);
    let first = c.read(&q.text);
    assert!(!first.hit);
    for (s, eff) in steps {
        if s.trim_start().to_uppercase().starts_with("SELECT") {
            c.read(s);
        } else {
            c.write(s, eff.clone());
        }
    }
    let res = c.read(&q.text);
    let stale = !same_answer(&res.cached, &res.twin);
    rep.case(&format!("probe {}", name), true);
    rep.count(&format!("probe_{}", name));
    if stale {
        let sig = classify(&c, &q, res.inserted_at.unwrap_or(0));
        rep.fail(
            FailKind::Oracle,
            sig,
            &format!("probe {}: cache hit returns a result that differs from executing the query on the current database", name),
            &format!("SQL script:\n{};\n-- cached: {}\n-- uncached: {}", c.script.join(";\n"), res.cached.brief(), res.twin.brief()),
        );
    }
    if stale != expect_stale {
        rep.fail(
            FailKind::Oracle,
            None,
            &format!("probe {}: expected stale={} but observed stale={} (the recorded finding no longer reproduces, or a repaired path regressed)", name, expect_stale, stale),
            &format!("SQL script:\n{};\n-- cached: {}\n-- uncached: {}", c.script.join(";\n"), res.cached.brief(), res.twin.brief()),
        );
    }
    c.model_check(model, rep, name);
}

fn main() {
    // every SelectExecutor (one per query and per evaluated subquery) allocates a zeroed 10 MB arena;
    // keep such blocks on mmap so that glibc hands out fresh zero pages instead of memset-ing 10 MB each time
    unsafe {
        libc::mallopt(libc::M_MMAP_THRESHOLD, 1 << 20);
    }
    engine::silence_panics();
    let args = Args::parse("C25");
    let mut rep = Report::new(
        &args,
        "cases: (1) pairs of query texts (signature equality: code vs model; equal keys ⇒ equal token streams) — non-trivial when the texts differ; \
         (2) random SELECT skeletons with table references at every clause/depth (extracted set: code vs model; referenced ⊆ extracted) — non-trivial with ≥2 distinct tables; \
         (3) raw cache traces — non-trivial with ≥1 hit and ≥1 eviction; \
         (4) read/write histories through the adapter protocol against an uncached twin — non-trivial with ≥1 hit, ≥2 misses and a hit after a write; distinct by hash of the case text",
    );
    rep.assumptions.push("the 64-bit SipHash of the normal form is injective on the texts of a run (collisions are not modelled)".into());
    rep.assumptions.push("queries are deterministic functions of the database (no CURRENT_TIMESTAMP / RANDOM in cached texts)".into());
    rep.assumptions.push("result comparison is by multiset of rows".into());
    let mut model = args.model();
    let mut rng = Rng::new(args.seed);

    let t_start = std::time::Instant::now();
    // ---- 1. deterministic probes
    sig_probes(&mut model, &mut rep);
    let t0 = |s: &str| Q { text: s.to_string(), named: vec!["T0".into()] };
    // repaired defect: literal case / blanks were conflated
    {
        let mut c = Cached::new(100);
        let mut r = Rng::new(3);
        setup(&mut c, &mut r, false);
        for (a, b) in [("SELECT 'say \"Hi\"'", "SELECT 'say \"hi\"'"), ("SELECT 'it`s  A'", "SELECT 'it`s A'"), ("SELECT 'A'", "SELECT 'a'"), ("SELECT 'a  b'", "SELECT 'a b'"), ("SELECT a FROM t0 WHERE b = 'x'", "SELECT a FROM t0 WHERE b = 'X'"), ("SELECT 1 -- c\n+1", "SELECT 1 -- c +1")] {
            c.read(a);
            let res = c.read(b);
            rep.case(&format!("literal-probe {}", b), true);
            if !same_answer(&res.cached, &res.twin) {
                rep.fail(FailKind::Oracle, None, "a query is served the cached result of a different query (foreign entry)", &format!("{};\n-- cached: {}\n-- uncached: {}", c.script.join(";\n"), res.cached.brief(), res.twin.brief()));
            }
        }
        c.model_check(&mut model, &mut rep, "literal probes");
    }
    finding_probe(&mut rep, &mut model, "base-table-write-invalidates", HistoryOpts::default(), &[("INSERT INTO t0 VALUES (42, 'n')", vec![])], t0("SELECT * FROM t0"), false);
    finding_probe(&mut rep, &mut model, "case-insensitive-invalidation", HistoryOpts::default(), &[("insert into T0 values (42, 'n')", vec![])], t0("select * from t0"), false);
    finding_probe(
        &mut rep,
        &mut model,
        "subquery-table-write-invalidates",
        HistoryOpts::default(),
        &[("INSERT INTO t1 VALUES (1, 'n')", vec![])],
        Q { text: "SELECT a FROM t0 WHERE a IN (SELECT a FROM t1)".into(), named: vec!["T0".into(), "T1".into()] },
        false,
    );
    finding_probe(
        &mut rep,
        &mut model,
        "view-dependency",
        HistoryOpts { views: true, ..Default::default() },
        &[("INSERT INTO t0 VALUES (42, 'n')", vec![])],
        Q { text: "SELECT * FROM v0".into(), named: vec!["V0".into()] },
        true,
    );
    finding_probe(
        &mut rep,
        &mut model,
        "cascade-delete",
        HistoryOpts { cascade: true, ..Default::default() },
        &[("DELETE FROM p WHERE id IN (1, 2, 3)", vec![Effect::Cascade("C".into())])],
        Q { text: "SELECT * FROM c".into(), named: vec!["C".into()] },
        true,
    );
    finding_probe(
        &mut rep,
        &mut model,
        "rollback",
        HistoryOpts { rollback: true, ..Default::default() },
        &[("INSERT INTO t1 VALUES (0, 'pre')", vec![]), ("BEGIN", vec![]), ("INSERT INTO t0 VALUES (9, 'tx')", vec![]), ("SELECT * FROM t0", vec![]), ("ROLLBACK", vec![])],
        t0("SELECT * FROM t0"),
        true,
    );
    finding_probe(
        &mut rep,
        &mut model,
        "alter-table",
        HistoryOpts { ddl: true, ..Default::default() },
        &[("ALTER TABLE t0 ADD COLUMN z INTEGER", vec![Effect::Ddl("T0".into())])],
        t0("SELECT * FROM t0"),
        true,
    );
    // qualified names: reads through `s.q`, write through the current schema
    {
        let mut c = Cached::new(100);
        for s in ["CREATE SCHEMA s", "CREATE TABLE s.q (a INTEGER, b VARCHAR(10))"] {
            c.write(s, vec![]);
        }
        c.read("SELECT * FROM s.q");
        c.write("SET SCHEMA s", vec![]);
        c.write("INSERT INTO q VALUES (1, 'x')", vec![]);
        let res = c.read("SELECT * FROM S.Q");
        rep.case("probe qualified-name", true);
        if !same_answer(&res.cached, &res.twin) {
            rep.fail(FailKind::Oracle, None, "qualified table name: stale result after a write through the unqualified name", &format!("{};\n-- cached: {}\n-- uncached: {}", c.script.join(";\n"), res.cached.brief(), res.twin.brief()));
        }
        c.model_check(&mut model, &mut rep, "qualified-name probe");
    }

    eprintln!("[c25] probes done {:?}", t_start.elapsed());
    // ---- 1b. literal pairs through the cache
    literal_cache_cases(&mut rng, args.n(500, 15000), &mut model, &mut rep);
    // ---- 2. signature pairs
    let n_pairs = args.n(1500, 20000);
    for i in 0..n_pairs {
        let mut r = rng.fork();
        let a = gen_text(&mut r);
        let b = match r.below(4) {
            0 => variant(&mut r, &a, false),
            1 => variant(&mut r, &a, true),
            2 => mutate_text(&mut r, &a),
            _ => gen_text(&mut r),
        };
        let (eq, same_tok) = check_pair(&a, &b, &mut model, &mut rep, "generated pair");
        rep.case(&format!("pair {} | {}", a, b), a != b);
        rep.count(if eq { "pairs_sig_equal" } else { "pairs_sig_different" });
        if !eq && same_tok {
            rep.count("pairs_same_tokens_but_different_keys(lost hit, allowed)");
        }
        if i < 2 {
            rep.sample(serde_json::json!({"kind": "signature pair", "text1": a, "text2": b, "signatures_equal": eq}));
        }
    }

    eprintln!("[c25] pairs done {:?}", t_start.elapsed());
    // ---- 3. table extraction
    let n_tab = args.n(600, 8000);
    for i in 0..n_tab {
        let mut r = rng.fork();
        let mut g = TGen { names: vec![], alias: 0 };
        let depth = r.range(0, 3) as u32;
        let s = g.sel(&mut r, depth);
        let sql = sql_sel(&s);
        // ORDER BY is not rendered when a set operation is present: drop names placed there
        let placed = if let Some(real) = real_tables(&sql) {
            let _ = real;
            // recompute the placed names from the rendered text (names are distinctive tokens)
            g.names.iter().filter(|n| sql.contains(n.as_str())).cloned().collect::<Vec<_>>()
        } else {
            vec![]
        };
        let nt = tables_case(&sql, &sx_sel(&s), &placed, &mut model, &mut rep);
        rep.case(&format!("tables {}", sql), nt);
        if i < 2 {
            rep.sample(serde_json::json!({"kind": "table extraction", "sql": sql, "model_request": sx_sel(&s)}));
        }
    }

    eprintln!("[c25] tables done {:?}", t_start.elapsed());
    // ---- 4. raw cache traces
    for _ in 0..args.n(400, 4000) {
        let mut r = rng.fork();
        raw_trace(&mut r, &mut model, &mut rep);
    }

    eprintln!("[c25] raw traces done {:?}", t_start.elapsed());
    // ---- 5. histories
    let n_hist = args.n(150, 800);
    for i in 0..n_hist {
        // three of four histories stay inside the premise of the property (writes announced for
        // the table they change, base tables only); the others add views / cascades / rollbacks / DDL
        let opts = match i % 8 {
            4 => HistoryOpts { views: true, ..Default::default() },
            5 => HistoryOpts { cascade: true, rollback: true, ..Default::default() },
            6 => HistoryOpts { views: true, ddl: true, ..Default::default() },
            _ => HistoryOpts::default(),
        };
        let class = match i % 8 {
            4 => "history_with_views",
            5 => "history_with_indirect_writes",
            6 => "history_with_ddl",
            _ => "history_base_tables_only",
        };
        rep.count(class);
        let len = if args.quick() { 36 } else { 60 };
        run_history(&mut rng, &opts, len, &mut model, &mut rep, &format!("h{}", i));
        if i == 0 {
            rep.sample(serde_json::json!({"kind": "history", "class": class, "length": len}));
        }
    }
    eprintln!("[c25] histories done {:?}; engine exec {} ms (history setup {} ms), model trace {} ms, slowest {:?}", t_start.elapsed(), T_EXEC.load(std::sync::atomic::Ordering::Relaxed) / 1000, T_SETUP.load(std::sync::atomic::Ordering::Relaxed) / 1000, T_MODEL.load(std::sync::atomic::Ordering::Relaxed) / 1000, T_SLOWEST.lock().unwrap());
    std::process::exit(rep.finish());
}
