import VibeProof.Props.C07
import VibeProof.Generated.Consts
import Std
/-
C03 — the columnar aggregate fast path returns exactly what row execution returns.

`tryColumnar` (Model/Agg.lean) is the columnar path as coded after the repairs (gate, bitmap
filter, COUNT(*) / COUNT(col), SIMD and scalar kernels, empty-input early return); `rowPath` is
the accumulator pipeline of C07.  The main theorem says that whenever the columnar path takes a
statement, its answer is the row path's answer, for every table contents of a typed table
(INTEGER / VARCHAR columns with NULLs, 64-bit integers) and every well-typed statement.
The full statement without the typing hypothesis is false of the code as it is
(`C03_counterexample`): an ill-typed predicate is an error on the row path and evaluates to a
count on the columnar path (known finding C03/ill-typed-predicate).
Floats are not modelled (SUM over DOUBLE columns is covered by the direct oracle only).
-/
namespace VibeProof.C03
open VibeProof VibeProof.Agg VibeProof.C07

/-! ### typing of tables and statements -/

/-- column `c` is INTEGER (`true`) or VARCHAR (`false`); integers are 64-bit -/
def CellOk (ty : Nat → Bool) (c : Nat) (v : Value) : Prop :=
  match v with
  | .null => True
  | .int i => ty c = true ∧ i64Min ≤ i ∧ i ≤ i64Max
  | .str _ => ty c = false
  | .bool _ => False

def TypedRows (ty : Nat → Bool) (rows : List Row) : Prop := ∀ r, r ∈ rows → ∀ c, CellOk ty c (cell r c)

def LitOk (ty : Nat → Bool) (c : Nat) (l : Value) : Prop :=
  match l with
  | .null => True
  | .int _ => ty c = true
  | .str _ => ty c = false
  | .bool _ => False

def PredOk (ty : Nat → Bool) : Pred → Prop
  | .cmp _ c l => LitOk ty c l
  | .between c lo hi => LitOk ty c lo ∧ LitOk ty c hi

def StmtOk (ty : Nat → Bool) (q : Stmt) : Prop := ∀ p, p ∈ q.preds → PredOk ty p

/-! ### the WHERE clause: bitmap filter = three-valued filter -/

theorem cmp3_typed (ty : Nat → Bool) (op : CmpOp) (c : Nat) (v l : Value)
    (hv : CellOk ty c v) (hl : LitOk ty c l) :
    cmp3 op v l = .ok (if v.isNull || l.isNull then TV.u else TV.ofBool (opHolds op (cmpColumnar v l))) := by
  cases v <;> cases l <;>
    simp_all [cmp3, CellOk, LitOk, Value.isNull, Value.cmp?, cmpColumnar, cmpSql]

theorem pred_typed (ty : Nat → Bool) (p : Pred) (r : Row) (hr : ∀ c, CellOk ty c (cell r c)) (hp : PredOk ty p) :
    ∃ tv, p.eval3 r = .ok tv ∧ ((tv == TV.t) = p.evalColumnar r) := by
  cases p with
  | cmp op c l =>
    refine ⟨_, cmp3_typed ty op c _ l (hr c) hp, ?_⟩
    simp only [Pred.evalColumnar]
    cases hvn : (cell r c).isNull <;> cases hln : l.isNull <;> simp [TV.ofBool]
    cases opHolds op (cmpColumnar (cell r c) l) <;> simp
  | between c lo hi =>
    obtain ⟨h1, h2⟩ := hp
    refine ⟨_, by simp only [Pred.eval3, cmp3_typed ty _ c _ _ (hr c) h1, cmp3_typed ty _ c _ _ (hr c) h2, bind, Except.bind, pure, Except.pure]; rfl, ?_⟩
    simp only [Pred.evalColumnar]
    cases hvn : (cell r c).isNull <;> cases hlo : lo.isNull <;> cases hhi : hi.isNull <;>
      simp [TV.ofBool, TV.and3] <;>
      (cases opHolds .ge (cmpColumnar (cell r c) lo) <;> cases opHolds .le (cmpColumnar (cell r c) hi) <;> simp [TV.and3])

theorem whereTrue_typed (ty : Nat → Bool) (preds : List Pred) (r : Row) (hr : ∀ c, CellOk ty c (cell r c))
    (hp : ∀ p, p ∈ preds → PredOk ty p) :
    whereTrue preds r = .ok (preds.all (fun p => p.evalColumnar r)) := by
  induction preds with
  | nil => rfl
  | cons p ps ih =>
    obtain ⟨tv, h1, h2⟩ := pred_typed ty p r hr (hp p (by simp))
    simp only [whereTrue, h1, ih (fun p hp' => hp p (by simp [hp'])), bind, Except.bind, pure, Except.pure,
      List.all_cons, h2]

/-- on a typed table the row path keeps exactly the rows whose bitmap bit is set (no error) -/
theorem C03_where (ty : Nat → Bool) (preds : List Pred) (rows : List Row) (hr : TypedRows ty rows)
    (hp : ∀ p, p ∈ preds → PredOk ty p) :
    filterRows preds rows = .ok (rows.filter (fun r => preds.all (fun p => p.evalColumnar r))) := by
  induction rows with
  | nil => rfl
  | cons r rs ih =>
    have h1 := whereTrue_typed ty preds r (hr r (by simp)) hp
    have h2 := ih (fun r' h' => hr r' (by simp [h']))
    simp only [filterRows, h1, h2, bind, Except.bind, pure, Except.pure, List.filter_cons]

theorem selected_map (c : Nat) (p : Row → Bool) (rows : List Row) :
    selected c rows (rows.map p) = (rows.filter p).map (fun r => cell r c) := by
  induction rows with
  | nil => rfl
  | cons r rs ih =>
    simp only [selected] at ih
    cases h : p r <;> simp [selected, List.zip_cons_cons, List.filter_cons, h, ih]

theorem countStar_map (p : Row → Bool) (rows : List Row) :
    colCountStar (rows.map p) = (rows.filter p).length := by
  induction rows with
  | nil => rfl
  | cons r rs ih =>
    simp only [colCountStar] at ih
    cases h : p r <;> simp [colCountStar, List.filter_cons, h, ih]

/-! ### kernels = accumulators -/

/-- the cells of a typed column are NULLs and 64-bit integers, or NULLs and strings -/
def IntCells (sel : List Value) : Prop := ∀ v, v ∈ sel → v = .null ∨ ∃ i, v = .int i ∧ i64Min ≤ i ∧ i ≤ i64Max
def StrCells (sel : List Value) : Prop := ∀ v, v ∈ sel → v = .null ∨ ∃ t, v = .str t

theorem exprCount_eq (sel : List Value) : exprCount sel = (nonNull sel).length := rfl

def minI (m i : Int) : Int := if i < m then i else m
def maxI (m i : Int) : Int := if m < i then i else m

theorem simd_fold (sel : List Value) (h : IntCells sel) (s : Int) (n : Nat) (mn mx : Int) :
    sel.foldl simdStep (.ok (s, n, mn, mx))
    = .ok (s + isum (ints sel), n + (ints sel).length, (ints sel).foldl minI mn, (ints sel).foldl maxI mx) := by
  induction sel generalizing s n mn mx with
  | nil => simp [ints, isum]
  | cons v vs ih =>
    have hvs : IntCells vs := fun x hx => h x (by simp [hx])
    rcases h v (by simp) with rfl | ⟨i, rfl, _, _⟩
    · simpa [ints, simdStep] using ih hvs s n mn mx
    · simp only [List.foldl_cons, simdStep, ih hvs, ints, List.filterMap_cons, List.length_cons, isum_cons,
        minI, maxI, Except.ok.injEq, Prod.mk.injEq, and_true]
      constructor <;> omega

/-- relation between the SIMD running minimum (started at i64::MAX) and the accumulator's -/
theorem minI_fold (is : List Int) (h : ∀ i, i ∈ is → i ≤ i64Max) :
    (is.map Value.int).foldl minStep none = (if is = [] then none else some (.int (is.foldl minI i64Max))) := by
  have gen : ∀ (l : List Int) (m : Int), (∀ i, i ∈ l → i ≤ i64Max) →
      (l.map Value.int).foldl minStep (some (.int m)) = some (.int (l.foldl minI m)) := by
    intro l
    induction l with
    | nil => intro m _; rfl
    | cons i l ih =>
      intro m hl
      simp only [List.map_cons, List.foldl_cons, minStep, cmpSql_int, minI]
      have : (compare i m = .lt) ↔ i < m := Int.compare_eq_lt
      by_cases hlt : i < m
      · simp only [this.mpr hlt, if_true, hlt]; exact ih i (fun j hj => hl j (by simp [hj]))
      · have : ¬ compare i m = .lt := fun e => hlt (this.mp e)
        simp only [this, if_false, hlt]; exact ih m (fun j hj => hl j (by simp [hj]))
  cases is with
  | nil => rfl
  | cons i l =>
    simp only [List.map_cons, List.foldl_cons, minStep]
    rw [gen l i (fun j hj => h j (by simp [hj]))]
    have hi := h i (by simp)
    simp only [reduceCtorEq, if_false, minI]
    by_cases hlt : i < i64Max
    · simp [hlt]
    · have : i = i64Max := by omega
      simp [this]

theorem maxI_fold (is : List Int) (h : ∀ i, i ∈ is → i64Min ≤ i) :
    (is.map Value.int).foldl maxStep none = (if is = [] then none else some (.int (is.foldl maxI i64Min))) := by
  have gen : ∀ (l : List Int) (m : Int), (∀ i, i ∈ l → i64Min ≤ i) →
      (l.map Value.int).foldl maxStep (some (.int m)) = some (.int (l.foldl maxI m)) := by
    intro l
    induction l with
    | nil => intro m _; rfl
    | cons i l ih =>
      intro m hl
      simp only [List.map_cons, List.foldl_cons, maxStep, cmpSql_int, maxI]
      have : (compare i m = .gt) ↔ m < i := Int.compare_eq_gt
      by_cases hgt : m < i
      · simp only [this.mpr hgt, if_true, hgt]; exact ih i (fun j hj => hl j (by simp [hj]))
      · have : ¬ compare i m = .gt := fun e => hgt (this.mp e)
        simp only [this, if_false, hgt]; exact ih m (fun j hj => hl j (by simp [hj]))
  cases is with
  | nil => rfl
  | cons i l =>
    simp only [List.map_cons, List.foldl_cons, maxStep]
    rw [gen l i (fun j hj => h j (by simp [hj]))]
    have hi := h i (by simp)
    simp only [reduceCtorEq, if_false, maxI]
    by_cases hgt : i64Min < i
    · simp [hgt]
    · have : i = i64Min := by omega
      simp [this]

theorem nonNull_intCells (sel : List Value) (h : IntCells sel) : nonNull sel = (ints sel).map Value.int := by
  induction sel with
  | nil => rfl
  | cons v vs ih =>
    have hvs : IntCells vs := fun x hx => h x (by simp [hx])
    rcases h v (by simp) with rfl | ⟨i, rfl, _, _⟩
    · simpa [nonNull, ints, Value.isNull] using ih hvs
    · simpa [nonNull, ints, Value.isNull] using ih hvs

theorem ints_range (sel : List Value) (h : IntCells sel) : ∀ i, i ∈ ints sel → i64Min ≤ i ∧ i ≤ i64Max := by
  intro i hi
  simp only [ints, List.mem_filterMap] at hi
  obtain ⟨v, hv, hvi⟩ := hi
  rcases h v hv with rfl | ⟨j, rfl, h1, h2⟩
  · simp at hvi
  · simp at hvi; subst hvi; exact ⟨h1, h2⟩

/-- the SIMD integer kernel computes what the accumulator computes (AVG, MIN, MAX, SUM) -/
theorem simd_eq (f : AggFn) (hf : f ≠ .count) (sel : List Value) (h : IntCells sel) :
    simdI64 f sel = .ok (accAll f false sel).finalize := by
  unfold simdI64
  rw [simd_fold sel h]
  have hr := ints_range sel h
  cases f with
  | count => exact absurd rfl hf
  | sum =>
    simp only [accAll, Acc.new, sum_fold, Acc.finalize, Nat.zero_add, Int.zero_add]
    cases hi : ints sel <;> simp
  | avg =>
    simp only [accAll, Acc.new, avg_fold, Acc.finalize, Nat.zero_add, Int.zero_add]
    cases hi : ints sel <;> simp
  | min =>
    simp only [accAll, Acc.new, min_fold, Acc.finalize, Nat.zero_add, nonNull_intCells sel h,
      minI_fold _ (fun i hi => (hr i hi).2)]
    cases hi : ints sel <;> simp
  | max =>
    simp only [accAll, Acc.new, max_fold, Acc.finalize, Nat.zero_add, nonNull_intCells sel h,
      maxI_fold _ (fun i hi => (hr i hi).1)]
    cases hi : ints sel <;> simp

/-- a typed column never mixes integers and strings, so `compare_sql_values` is antisymmetric on it -/
def Homog (sel : List Value) : Prop := IntCells sel ∨ StrCells sel

theorem cmpSql_swap_homog (sel : List Value) (h : Homog sel) (a b : Value) (ha : a ∈ nonNull sel) (hb : b ∈ nonNull sel) :
    cmpSql a b = (cmpSql b a).swap := by
  have ha' := List.mem_filter.mp ha
  have hb' := List.mem_filter.mp hb
  rcases h with h | h
  · rcases h a ha'.1 with rfl | ⟨i, rfl, _⟩
    · simp [Value.isNull] at ha'
    · rcases h b hb'.1 with rfl | ⟨j, rfl, _⟩
      · simp [Value.isNull] at hb'
      · simp only [cmpSql_int]; exact Std.OrientedCmp.eq_swap
  · rcases h a ha'.1 with rfl | ⟨i, rfl⟩
    · simp [Value.isNull] at ha'
    · rcases h b hb'.1 with rfl | ⟨j, rfl⟩
      · simp [Value.isNull] at hb'
      · simp only [cmpSql_str]; exact Std.OrientedCmp.eq_swap

theorem scalar_sum_fold (sel : List Value) (st : Int × Nat) :
    sel.foldl scalarSumStep st = (st.1 + isum (ints sel), st.2 + (ints sel).length) := by
  induction sel generalizing st with
  | nil => simp [ints, isum]
  | cons v vs ih =>
    cases v with
    | int i =>
      simp only [List.foldl_cons, scalarSumStep, ih, ints, List.filterMap_cons, List.length_cons, isum_cons,
        Prod.mk.injEq]
      constructor <;> omega
    | null => simpa [ints, scalarSumStep] using ih st
    | str t => simpa [ints, scalarSumStep] using ih st
    | bool b => simpa [ints, scalarSumStep] using ih st

theorem scalarMinStep_eq (cur : Option Value) (v : Value) :
    scalarMinStep cur v = if v.isNull then cur else minStep cur v := by
  unfold scalarMinStep minStep lessForMinMax
  cases v.isNull <;> cases cur <;> simp

theorem scalar_min_fold (sel : List Value) (cur : Option Value) :
    sel.foldl scalarMinStep cur = (nonNull sel).foldl minStep cur := by
  induction sel generalizing cur with
  | nil => rfl
  | cons v vs ih =>
    simp only [List.foldl_cons, scalarMinStep_eq, nonNull, List.filter_cons]
    cases hv : v.isNull
    · simpa [nonNull] using ih (minStep cur v)
    · simpa [nonNull] using ih cur

theorem scalar_max_fold (all : List Value)
    (hsw : ∀ a b, a ∈ nonNull all → b ∈ nonNull all → cmpSql a b = (cmpSql b a).swap)
    (sel : List Value) (hsub : ∀ x, x ∈ sel → x ∈ all) (cur : Option Value)
    (hcur : ∀ c, cur = some c → c ∈ nonNull all) :
    sel.foldl scalarMaxStep cur = (nonNull sel).foldl maxStep cur := by
  induction sel generalizing cur with
  | nil => rfl
  | cons v vs ih =>
    have hvs : ∀ x, x ∈ vs → x ∈ all := fun x hx => hsub x (by simp [hx])
    cases hv : v.isNull
    · have hvm : v ∈ nonNull all := List.mem_filter.mpr ⟨hsub v (by simp), by simp [hv]⟩
      have step : scalarMaxStep cur v = maxStep cur v := by
        unfold scalarMaxStep maxStep lessForMinMax
        simp only [hv, Bool.false_eq_true, if_false]
        cases cur with
        | none => rfl
        | some c =>
          have h1 := hsw v c hvm (hcur c rfl)
          cases hcv : cmpSql c v <;> simp [hcv] at h1 ⊢ <;> simp [h1]
      have hnew : ∀ c, maxStep cur v = some c → c ∈ nonNull all := by
        intro c hc
        cases cur with
        | none => simp [maxStep] at hc; subst hc; exact hvm
        | some c0 =>
          simp only [maxStep] at hc
          split at hc
          · simp at hc; subst hc; exact hvm
          · simp at hc; subst hc; exact hcur _ rfl
      simp only [List.foldl_cons, step, nonNull, List.filter_cons, hv, Bool.not_false, if_true]
      simpa [nonNull] using ih hvs (maxStep cur v) hnew
    · have step : scalarMaxStep cur v = cur := by simp [scalarMaxStep, hv]
      simp only [List.foldl_cons, step, nonNull, List.filter_cons, hv, Bool.not_true, Bool.false_eq_true, if_false]
      simpa [nonNull] using ih hvs cur hcur

/-- the scalar kernels compute what the accumulator computes -/
theorem scalar_eq (f : AggFn) (hf : f ≠ .count) (sel : List Value) (h : Homog sel) :
    scalarKernel f sel = .ok (accAll f false sel).finalize := by
  cases f with
  | count => exact absurd rfl hf
  | sum =>
    simp only [scalarKernel, scalar_sum_fold, accAll, Acc.new, sum_fold, Acc.finalize, Nat.zero_add, Int.zero_add]
  | avg =>
    simp only [scalarKernel, scalar_sum_fold, accAll, Acc.new, avg_fold, Acc.finalize, Nat.zero_add, Int.zero_add]
  | min =>
    simp only [scalarKernel, scalar_min_fold, accAll, Acc.new, min_fold, Acc.finalize]
  | max =>
    simp only [scalarKernel, accAll, Acc.new, max_fold, Acc.finalize]
    rw [scalar_max_fold sel (cmpSql_swap_homog sel h) sel (fun _ hx => hx) none (by intro c hc; cases hc)]

/-! ### one select item, the whole statement -/

/-- the selected cells of a column of a typed table are homogeneous -/
theorem homog_of_typed (ty : Nat → Bool) (rows : List Row) (hr : TypedRows ty rows) (c : Nat) :
    (ty c = true → IntCells (rows.map (fun r => cell r c))) ∧
    (ty c = false → StrCells (rows.map (fun r => cell r c))) := by
  constructor
  · intro ht v hv
    obtain ⟨r, hrm, rfl⟩ := List.mem_map.mp hv
    have := hr r hrm c
    cases hc : cell r c <;> simp_all [CellOk]
  · intro ht v hv
    obtain ⟨r, hrm, rfl⟩ := List.mem_map.mp hv
    have := hr r hrm c
    cases hc : cell r c <;> simp_all [CellOk]

theorem simdKind_int (probe : Nat) (col : List Value) (b : Bool) (h : simdKind probe col = some b)
    (hs : StrCells col) : False := by
  unfold simdKind at h
  cases hf : (col.take probe).find? (fun v => !v.isNull) with
  | none => simp [hf] at h
  | some v =>
    have hm : v ∈ col := List.mem_of_mem_take (List.mem_of_find?_eq_some hf)
    rcases hs v hm with rfl | ⟨t, rfl⟩ <;> simp [hf] at h

/-- every aggregate the columnar path computes equals the accumulator's value over the rows
that pass the WHERE clause -/
theorem colItem_eq (ty : Nat → Bool) (it : Item) (rows : List Row) (hr : TypedRows ty rows)
    (p : Row → Bool) (hd : it.distinct = false) (hstar : it.arg = none → it.fn = .count) :
    colItem it rows (rows.map p) = .ok (evalItem it (rows.filter p)) := by
  have hsub : TypedRows ty (rows.filter p) := fun r h => hr r (List.mem_filter.mp h).1
  unfold colItem evalItem
  cases ha : it.arg with
  | none => simp [countStar_map]
  | some c =>
    simp only [selected_map, hd]
    have hty := homog_of_typed ty (rows.filter p) hsub c
    have htyAll := homog_of_typed ty rows hr c
    cases hf : it.fn with
    | count => simp [exprCount_eq, C07_count]
    | sum | avg | min | max =>
      all_goals
        simp only []
        cases hk : simdKind simdProbe (rows.map (fun r => cell r c)) with
        | some b =>
          cases htc : ty c with
          | true => exact simd_eq _ (by simp) _ (hty.1 htc)
          | false => exact absurd (simdKind_int _ _ b hk (htyAll.2 htc)) id
        | none =>
          cases htc : ty c with
          | true => exact scalar_eq _ (by simp) _ (Or.inl (hty.1 htc))
          | false => exact scalar_eq _ (by simp) _ (Or.inr (hty.2 htc))

theorem mapM_ok {α β : Type} (f : α → Except Err β) (g : α → β) (l : List α) (h : ∀ a, a ∈ l → f a = .ok (g a)) :
    l.mapM f = .ok (l.map g) := by
  induction l with
  | nil => rfl
  | cons a as ih =>
    simp [List.mapM_cons, h a (by simp), ih (fun x hx => h x (by simp [hx])), bind, Except.bind, pure, Except.pure]

theorem bitmap_nil (rows : List Row) : bitmap [] rows = rows.map (fun _ => true) := by
  simp [bitmap]

theorem gate_parts (q : Stmt) (h : gateAccepts q = true) :
    q.having = none ∧ q.limit = none ∧ q.offset = none ∧
    ∀ it, it ∈ q.items → it.distinct = false ∧ (it.arg = none → it.fn = .count) := by
  unfold gateAccepts at h
  simp at h
  obtain ⟨⟨⟨⟨⟨_, hh⟩, _⟩, hl⟩, ho⟩, hit⟩ := h
  refine ⟨hh, hl, ho, ?_⟩
  intro it hm
  have := hit it hm
  refine ⟨this.1, ?_⟩
  intro ha
  have h2 := this.2
  simp only [ha] at h2
  simpa using h2

/-- **Main theorem.** Whenever the columnar path takes a statement (gate-accepted shape), its
answer is the answer of row execution — for every typed table contents, `[]` and all-NULL
columns included, and every well-typed WHERE clause. -/
theorem C03_columnar_eq_row (ty : Nat → Bool) (q : Stmt) (rows : List Row)
    (hr : TypedRows ty rows) (hq : StmtOk ty q) (r : Except Err (List (List Res)))
    (h : tryColumnar q rows = some r) : r = rowPath q rows := by
  unfold tryColumnar at h
  cases hg : gateAccepts q with
  | false => simp [hg] at h
  | true =>
    obtain ⟨hh, hl, ho, hit⟩ := gate_parts q hg
    have hrow : rowPath q rows =
        .ok [q.items.map (fun it => evalItem it (rows.filter (fun r => q.preds.all (fun p => p.evalColumnar r))))] := by
      simp [rowPath, C03_where ty q.preds rows hr hq, bind, Except.bind, pure, Except.pure, hh, hl, ho,
        havingKeeps, limitOffset]
    simp only [hg, Bool.not_true, Bool.false_eq_true, if_false] at h
    cases hrows : rows with
    | nil =>
      subst hrows
      simp only [List.isEmpty_nil, if_true, Option.some.injEq] at h
      rw [hrow, ← h]
      simp only [List.filter_nil, Except.ok.injEq, List.cons.injEq, and_true]
      apply List.map_congr_left
      intro it hm
      obtain ⟨hd, hs⟩ := hit it hm
      unfold evalItem
      cases ha : it.arg with
      | none => simp [hs ha]
      | some c => cases hf : it.fn <;> simp [accAll, Acc.new, Acc.finalize, hd]
    | cons r0 rs =>
      rw [← hrows]
      have hne : rows.isEmpty = false := by simp [hrows]
      simp only [hne, Bool.false_eq_true, if_false, Option.some.injEq] at h
      have hbits : (if q.preds.isEmpty then rows.map (fun _ => true) else bitmap q.preds rows)
          = rows.map (fun r => q.preds.all (fun p => p.evalColumnar r)) := by
        cases hp : q.preds with
        | nil => simp
        | cons p ps => simp [bitmap]
      rw [hbits] at h
      rw [hrow, ← h, mapM_ok _ (fun it => evalItem it (rows.filter (fun r => q.preds.all (fun p => p.evalColumnar r))))]
      · rfl
      · intro it hm
        obtain ⟨hd, hs⟩ := hit it hm
        exact colItem_eq ty it rows hr _ hd hs

/-- what the engine returns is what row execution returns -/
theorem C03_execute_eq_row (ty : Nat → Bool) (q : Stmt) (rows : List Row)
    (hr : TypedRows ty rows) (hq : StmtOk ty q) : execute q rows = rowPath q rows := by
  unfold execute
  cases h : tryColumnar q rows with
  | none => rfl
  | some r => exact C03_columnar_eq_row ty q rows hr hq r h

/-- HAVING, ORDER BY, LIMIT, OFFSET and DISTINCT aggregates never reach the columnar path -/
theorem C03_gate_declines (q : Stmt) (rows : List Row)
    (h : q.having ≠ none ∨ q.orderBy = true ∨ q.limit ≠ none ∨ q.offset ≠ none ∨ ∃ it, it ∈ q.items ∧ it.distinct = true) :
    tryColumnar q rows = none := by
  have : gateAccepts q = false := by
    cases hg : gateAccepts q with
    | false => rfl
    | true =>
      obtain ⟨hh, hl, ho, hit⟩ := gate_parts q hg
      rcases h with h | h | h | h | ⟨it, hm, hd⟩
      · exact absurd hh h
      · simp [gateAccepts, h] at hg
      · exact absurd hl h
      · exact absurd ho h
      · have := (hit it hm).1; simp [hd] at this
  simp [tryColumnar, this]

/-- corollary: on the columnar path there is exactly one row and COUNT(*) is the number of rows
that pass the filter — never NULL (empty table: 0) -/
theorem C03_one_row_count_not_null (ty : Nat → Bool) (q : Stmt) (rows : List Row)
    (hr : TypedRows ty rows) (hq : StmtOk ty q) (out : List (List Res))
    (h : tryColumnar q rows = some (.ok out)) :
    out.length = 1 ∧ ∀ row, row ∈ out → ∀ (i : Nat) (it : Item), q.items[i]? = some it → it.fn = .count →
      ∃ n : Nat, row[i]? = some (.val (.int n)) := by
  have hg : gateAccepts q = true := by
    cases hg : gateAccepts q with
    | true => rfl
    | false => simp [tryColumnar, hg] at h
  obtain ⟨hh, hl, ho, hit⟩ := gate_parts q hg
  have heq := C03_columnar_eq_row ty q rows hr hq _ h
  have hrow : rowPath q rows =
      .ok [q.items.map (fun it => evalItem it (rows.filter (fun r => q.preds.all (fun p => p.evalColumnar r))))] := by
    simp [rowPath, C03_where ty q.preds rows hr hq, bind, Except.bind, pure, Except.pure, hh, hl, ho,
      havingKeeps, limitOffset]
  rw [hrow] at heq
  cases heq
  refine ⟨rfl, ?_⟩
  intro row hrow' i it hi hc
  simp at hrow'; subst hrow'
  have hm : it ∈ q.items := List.mem_of_getElem? hi
  obtain ⟨n, hn⟩ := C07_count_never_null it (rows.filter (fun r => q.preds.all (fun p => p.evalColumnar r))) hc (hit it hm).1
  exact ⟨n, by simp [List.getElem?_map, hi, hn]⟩

/-! ### the full statement and its counterexample -/

/-- the property without the typing hypothesis -/
def C03_full : Prop :=
  ∀ (q : Stmt) (rows : List Row) (r : Except Err (List (List Res))),
    tryColumnar q rows = some r → r = rowPath q rows

def cexStmt : Stmt :=
  { items := [{ fn := .count, arg := none, distinct := false }],
    preds := [.cmp .eq 0 (.str "a")], having := none, orderBy := false, limit := none, offset := none }

/-- `SELECT COUNT(*) FROM t WHERE c0 = 'a'` over an INTEGER column: TypeMismatch on the row path,
a count on the columnar path (replayed on the real engine by the harness probe; known finding
C03/ill-typed-predicate) -/
theorem C03_counterexample : ¬ C03_full := by
  intro h
  have := h cexStmt [[.int 1]] (.ok [[.val (.int 1)]]) rfl
  have e : rowPath cexStmt [[.int 1]] = .error .typeMismatch := rfl
  rw [e] at this
  cases this

/-- non-vacuity of the hypotheses of the main theorem: a typed table with NULLs, a well-typed
statement taken by the columnar path -/
example : ∃ r, tryColumnar
    { items := [{ fn := .count, arg := none, distinct := false }, { fn := .avg, arg := some 0, distinct := false },
                { fn := .max, arg := some 1, distinct := false }],
      preds := [.cmp .ge 0 (.int 0)], having := none, orderBy := false, limit := none, offset := none }
    [[.int 1, .str "b"], [.null, .str "a"], [.int 3, .null]] = some r := ⟨_, rfl⟩

/-! ### the 1024-value batches of the SIMD kernels -/

/-- a buffered loop whose flush is "fold the batch into the state" is the plain fold -/
theorem batchLoop_eq {σ : Type} (B : Nat) (flush : σ → List Int → σ) (step : σ → Int → σ)
    (hflush : ∀ st b, flush st b = b.foldl step st) (xs buf : List Int) (st : σ) :
    batchLoop B flush xs buf st = (buf ++ xs).foldl step st := by
  induction xs generalizing buf st with
  | nil =>
    simp only [batchLoop, List.append_nil]
    split
    · rename_i h; simp [List.isEmpty_iff.mp h]
    · exact hflush st buf
  | cons x xs ih =>
    simp only [batchLoop]
    split
    · rw [ih, hflush]; simp [List.foldl_append]
    · rw [ih]; simp

theorem simdSumI64_eq (l : List Int) : simdSumI64 l = isum l := by
  induction l using simdSumI64.induct with
  | case1 a b c d rest ih =>
    simp only [simdSumI64, ih, isum_cons]; omega
  | case2 rest h =>
    unfold simdSumI64
    split
    · rename_i a b c d r; exact absurd rfl (h a b c d r)
    · rfl

theorem minI_assoc (a b c : Int) : minI (minI a b) c = minI a (minI b c) := by
  unfold minI; repeat' split
  all_goals omega

theorem maxI_assoc (a b c : Int) : maxI (maxI a b) c = maxI a (maxI b c) := by
  unfold maxI; repeat' split
  all_goals omega

theorem foldl_minI (xs : List Int) (a b : Int) : xs.foldl minI (minI a b) = minI a (xs.foldl minI b) := by
  induction xs generalizing b with
  | nil => rfl
  | cons y ys ih => simp only [List.foldl_cons, minI_assoc, ih]

theorem foldl_maxI (xs : List Int) (a b : Int) : xs.foldl maxI (maxI a b) = maxI a (xs.foldl maxI b) := by
  induction xs generalizing b with
  | nil => rfl
  | cons y ys ih => simp only [List.foldl_cons, maxI_assoc, ih]

theorem flushMin_eq (st : Int) (b : List Int) : flushMin st b = b.foldl minI st := by
  cases b with
  | nil => rfl
  | cons x xs =>
    have : flushMin st (x :: xs) = minI st (xs.foldl minI x) := rfl
    rw [this, List.foldl_cons, foldl_minI]

theorem flushMax_eq (st : Int) (b : List Int) : flushMax st b = b.foldl maxI st := by
  cases b with
  | nil => rfl
  | cons x xs =>
    have : flushMax st (x :: xs) = maxI st (xs.foldl maxI x) := rfl
    rw [this, List.foldl_cons, foldl_maxI]

/-- SUM/AVG: accumulating batch sums (4-lane chunks inside a batch) over full batches and the
final partial batch gives the sum of all values — for every batch size and every input length -/
theorem C03_simd_batches_sum (B : Nat) (is : List Int) : batchLoop B flushSum is [] 0 = isum is := by
  rw [batchLoop_eq B flushSum (· + ·) (by intro st b; simp [flushSum, simdSumI64_eq, isum_foldl])]
  simp [isum]

/-- MIN / MAX: folding the batch minima (maxima) into the running value equals the running
minimum (maximum) over all values, whatever batch the extreme sits in -/
theorem C03_simd_batches_min (B : Nat) (is : List Int) (m0 : Int) :
    batchLoop B flushMin is [] m0 = is.foldl minI m0 := by
  rw [batchLoop_eq B flushMin minI flushMin_eq]; simp

theorem C03_simd_batches_max (B : Nat) (is : List Int) (m0 : Int) :
    batchLoop B flushMax is [] m0 = is.foldl maxI m0 := by
  rw [batchLoop_eq B flushMax maxI flushMax_eq]; simp

/-! ### initial value of a running MIN / MAX -/

/-- MAX: a fold that starts from any `init` below every value is the maximum of the list — for
EVERY list of keys (no sign assumption), `none` exactly on the empty list -/
theorem C03_max_fold_init (init : Int) (is : List Int) (h : ∀ i, i ∈ is → init ≤ i) :
    (is.map Value.int).foldl maxStep none = (if is = [] then none else some (.int (is.foldl maxI init))) := by
  have gen : ∀ (l : List Int) (m : Int),
      (l.map Value.int).foldl maxStep (some (.int m)) = some (.int (l.foldl maxI m)) := by
    intro l
    induction l with
    | nil => intro m; rfl
    | cons i l ih =>
      intro m
      simp only [List.map_cons, List.foldl_cons, maxStep, cmpSql_int, maxI]
      have : (compare i m = .gt) ↔ m < i := Int.compare_eq_gt
      by_cases hgt : m < i
      · simp only [this.mpr hgt, if_true, hgt]; exact ih i
      · have : ¬ compare i m = .gt := fun e => hgt (this.mp e)
        simp only [this, if_false, hgt]; exact ih m
  cases is with
  | nil => rfl
  | cons i l =>
    simp only [List.map_cons, List.foldl_cons, maxStep]
    rw [gen l i]
    have hi := h i (by simp)
    simp only [reduceCtorEq, if_false, maxI]
    by_cases hgt : init < i
    · simp [hgt]
    · have : i = init := by omega
      simp [this]

theorem C03_min_fold_init (init : Int) (is : List Int) (h : ∀ i, i ∈ is → i ≤ init) :
    (is.map Value.int).foldl minStep none = (if is = [] then none else some (.int (is.foldl minI init))) := by
  have gen : ∀ (l : List Int) (m : Int),
      (l.map Value.int).foldl minStep (some (.int m)) = some (.int (l.foldl minI m)) := by
    intro l
    induction l with
    | nil => intro m; rfl
    | cons i l ih =>
      intro m
      simp only [List.map_cons, List.foldl_cons, minStep, cmpSql_int, minI]
      have : (compare i m = .lt) ↔ i < m := Int.compare_eq_lt
      by_cases hlt : i < m
      · simp only [this.mpr hlt, if_true, hlt]; exact ih i
      · have : ¬ compare i m = .lt := fun e => hlt (this.mp e)
        simp only [this, if_false, hlt]; exact ih m
  cases is with
  | nil => rfl
  | cons i l =>
    simp only [List.map_cons, List.foldl_cons, minStep]
    rw [gen l i]
    have hi := h i (by simp)
    simp only [reduceCtorEq, if_false, minI]
    by_cases hlt : i < init
    · simp [hlt]
    · have : i = init := by omega
      simp [this]

/-- … and the batched kernel started from such an `init` is that maximum as well -/
theorem C03_simd_batches_max_is_max (B : Nat) (init : Int) (is : List Int) (h : ∀ i, i ∈ is → init ≤ i) :
    (is.map Value.int).foldl maxStep none =
      (if is = [] then none else some (.int (batchLoop B flushMax is [] init))) := by
  rw [C03_simd_batches_max, C03_max_fold_init init is h]

/-- a wrong start value is wrong: started above some value, the fold does not return the maximum
(the f64 key of `f64::MIN_POSITIVE` against a column of non-positive values) -/
theorem C03_bad_init_counterexample :
    ([-5, 0].map Value.int).foldl maxStep none ≠ some (.int ([-5, 0].foldl maxI 4503599627370496)) := by
  decide

/-- every simd_* kernel in the source starts its running maximum at the least key of its element
type (f64: -∞, i64: i64::MIN) and its running minimum at the greatest (f64: +∞, i64: i64::MAX) —
checked against the initialisers extracted from the source on this run -/
theorem C03_kernel_inits_ok :
    VibeProof.Generated.c03KernelInits.all initOk = true ∧ VibeProof.Generated.c03KernelInits.length = 8 := by
  decide

/-- hence each extracted MAX initialiser is ≤ every key of its type and each MIN initialiser ≥ -/
theorem C03_kernel_init_bounds (e : String × String × String × String) (he : e ∈ VibeProof.Generated.c03KernelInits)
    (k lo hi : Int) (hk : initKey e.2.2.2 = some k) (hlo : keyLo e.2.1 = some lo) (hhi : keyHi e.2.1 = some hi) :
    (e.2.2.1 = "max" → ∀ v, lo ≤ v → k ≤ v) ∧ (e.2.2.1 = "min" → ∀ v, v ≤ hi → v ≤ k) := by
  have hall : initOk e = true := List.all_eq_true.mp C03_kernel_inits_ok.1 e he
  obtain ⟨f, ty, kind, init⟩ := e
  simp only at hk hlo hhi ⊢
  constructor
  · intro hkind v hv
    subst hkind
    simp [initOk, hk, hlo] at hall
    omega
  · intro hkind v hv
    subst hkind
    simp [initOk, hk, hhi] at hall
    omega

/-! ### constants re-read from the source on every run (tools/consts.d/c03.py) -/

/-- the model's SIMD probe length is the one in `can_use_simd_for_column` -/
theorem C03_probe_const : simdProbe = VibeProof.Generated.c03SimdProbe := by decide

/-- both streaming kernels use the batch size of the model (the batch theorems hold for every size) -/
theorem C03_batch_const : VibeProof.Generated.c03SimdBatchSizes = [simdBatchSize] := by decide

/-- `should_use_columnar` still rejects every statement part the columnar path does not evaluate -/
theorem C03_gate_const :
    ∀ part, part ∈ ["having", "order_by", "limit", "offset", "group_by", "distinct"] →
      part ∈ VibeProof.Generated.c03GateRejects := by decide

end VibeProof.C03
