import VibeProof.Model.Codec
import VibeProof.Model.Dml
import VibeProof.Generated.Consts
open VibeProof VibeProof.Proto VibeProof.Codec VibeProof.Dml

/-!
`(hist (schema N (nn i…) (pk i…)|(nopk) (uniq (i…)…) (checks E…)) S…)` → `(hist R…)`, one
`R = ((ok n)|(err class) (rows …) (idx ((cols…) skip (K…))…) active)` per statement.
Statements: `(ins plain|replace (rows…))`, `(insdup (rows…) (asg (c E)…))` (E over existing row ++
insert values), `(bulk (rows…))`, `(upd W (asg (c E)…))`, `(del W)`, `(trunc)`, `(addpk i…)`,
`(adduniq i…)`, `(addcheck E)`; `W` = expression or `all`.
-/

def thr : Nat := VibeProof.Generated.appendModeThreshold

def decNats (xs : List Sx) : Option (List Nat) := xs.mapM Sx.nat?

def encDErr : DErr → String
  | .constraint => "constraint" | .type => "type" | .arity => "arity"
  | .column => "column" | .eval => "eval" | .other => "other"

def encOut : Out → Sx
  | .ok n => .list [.atom "ok", sxNat n]
  | .err e => .list [.atom "err", .atom (encDErr e)]

def encKey (k : Key) : Sx := .list (k.map (fun v => .atom (encValue v)))

def encTable (t : Table) : List Sx :=
  [ .list (.atom "rows" :: t.rows.map encRow),
    .list (.atom "idx" :: t.idxs.map (fun u =>
      .list [.list (u.cols.map sxNat), sxBool u.skipNull, .list (u.keys.map encKey)])),
    sxBool t.tracker.active ]

def decAsg (xs : List Sx) : Option (List (Nat × Expr)) :=
  xs.mapM (fun
    | .list [c, e] => do pure ((← c.nat?), (← decExpr e))
    | _ => none)

/-- apply assignments, each evaluated on `env` (the original row, or existing ++ insert values) -/
def applyAsg (asg : List (Nat × Expr)) (env : Row) (base : Row) : Except DErr Row :=
  asg.foldlM (fun r (ce : Nat × Expr) =>
    match ce.2.eval env with
    | .ok v => .ok (r.set ce.1 v)
    | .error _ => .error .eval) base

/-- `evaluate_duplicate_key_expression`: literals, column refs, and `+` on two integers only -/
def dupEval (env : Row) : Expr → Except DErr Value
  | .bin .add a b => do
    let x ← dupEval env a
    let y ← dupEval env b
    match x, y with
    | .int i, .int j => .ok (.int (i + j))
    | _, _ => .error .other
  | e => match e.eval env with
    | .ok v => .ok v
    | .error _ => .error .eval

def applyDupAsg (asg : List (Nat × Expr)) (env : Row) (base : Row) : Except DErr Row :=
  asg.foldlM (fun r (ce : Nat × Expr) => do
    let v ← dupEval env ce.2
    pure (r.set ce.1 v)) base

def decWhere : Sx → Option (Option Expr)
  | .atom "all" => some none
  | e => (decExpr e).map some

def selUpd (w : Option Expr) (r : Row) : Except DErr Bool :=
  match w with
  | none => .ok true
  | some e => match e.tv r with
    | .ok v => .ok (v == TV.t)
    | .error _ => .error .eval

def selDel (w : Option Expr) (r : Row) : Bool :=
  match w with
  | none => true
  | some e => match e.tv r with
    | .ok v => v == TV.t
    | .error _ => false

def decStmt : Sx → Option Stmt
  | .list [.atom "ins", .atom "plain", .list (.atom "rows" :: rs)] => do pure (.insert (← rs.mapM decRow) .plain)
  | .list [.atom "ins", .atom "replace", .list (.atom "rows" :: rs)] => do pure (.insert (← rs.mapM decRow) .replace)
  | .list [.atom "insdup", .list (.atom "rows" :: rs), .list (.atom "asg" :: as)] => do
      let asg ← decAsg as
      pure (.insert (← rs.mapM decRow) (.onDup (fun old ins => applyDupAsg asg (old ++ ins) old)))
  | .list [.atom "bulk", .list (.atom "rows" :: rs)] => do pure (.bulk (← rs.mapM decRow))
  | .list [.atom "upd", w, .list (.atom "asg" :: as)] => do
      let asg ← decAsg as
      let wh ← decWhere w
      pure (.update (selUpd wh) (fun r => applyAsg asg r r))
  | .list [.atom "del", w] => do pure (.delete (selDel (← decWhere w)))
  | .list [.atom "trunc"] => some .truncate
  | .list (.atom "addpk" :: cs) => (decNats cs).map .addPk
  | .list (.atom "adduniq" :: cs) => (decNats cs).map .addUnique
  | .list [.atom "addcheck", e] => (decExpr e).map .addCheck
  | _ => none

def decSchema : Sx → Option Table
  | .list [.atom "schema", n, .list (.atom "nn" :: nn), pk, .list (.atom "uniq" :: us), .list (.atom "checks" :: cs)] => do
      let pk' ← match pk with
        | .list (.atom "pk" :: cols) => (decNats cols).map some
        | .list [.atom "nopk"] => some none
        | _ => none
      let us' ← us.mapM (fun | .list cols => decNats cols | _ => none)
      pure (Table.create (← n.nat?) (← decNats nn) pk' us' (← cs.mapM decExpr))
  | _ => none

def runHist (t : Table) : List Stmt → List Sx
  | [] => []
  | s :: ss =>
    let r := step thr t s
    .list (encOut r.2 :: encTable r.1) :: runHist r.1 ss

def handle : List Sx → Sx
  | .atom "hist" :: sch :: stmts =>
    match decSchema sch, stmts.mapM decStmt with
    | some t, some ss => .list (.atom "hist" :: runHist t ss)
    | _, _ => .atom "bad-request"
  | _ => .atom "bad-request"

def main : IO Unit := runDriver handle
