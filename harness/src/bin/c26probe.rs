//! scratch probe: SQL script on stdin; directives `@role NAME|-`, `@security on|off`
use std::io::Read;
use vharness::*;
fn main() {
    engine::silence_panics();
    let mut s = String::new();
    std::io::stdin().read_to_string(&mut s).unwrap();
    let mut db = Db::new();
    for line in s.lines() {
        let l = line.trim();
        if l.is_empty() || l.starts_with('#') {
            continue;
        }
        if let Some(r) = l.strip_prefix("@role ") {
            db.db.set_role(if r == "-" { None } else { Some(r.to_string()) });
            println!("-- role {}", r);
            continue;
        }
        if let Some(r) = l.strip_prefix("@security ") {
            if r == "on" {
                db.db.enable_security()
            } else {
                db.db.disable_security()
            }
            println!("-- security {}", r);
            continue;
        }
        if let Some(t) = l.strip_prefix("@indexes ") {
            let names = db.db.list_indexes_for_table(t);
            println!("   indexes for {}: {:?}", t, names);
            for n in names {
                if let Some(m) = db.db.get_index(&n) {
                    println!("     {} table={} cols={:?}", n, m.table_name, m.columns.iter().map(|c| c.column_name.clone()).collect::<Vec<_>>());
                }
                println!("     data present: {}", db.db.get_index_data(&n).is_some());
            }
            continue;
        }
        if l == "@grants" {
            for g in db.db.catalog.get_all_grants() {
                println!("   grant {:?}", g);
            }
            continue;
        }
        let o = db.exec(l);
        let mut b = o.brief();
        b.truncate(300);
        println!("{}\n   => {}", l, b);
    }
}
