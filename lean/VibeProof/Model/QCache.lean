/-
C25 — model of the query result cache and of the protocol that wires it
(crates/vibesql-executor/src/cache/{query_signature,query_result_cache,table_extractor}.rs,
tests/sqllogictest/db_adapter.rs), as coded.

* `normalizeQ`  — `QuerySignature::normalize` after the repair (lower-case / collapse only
                  outside quoted text, `--` comments dropped).  The signature of a text is its
                  normal form; the 64-bit SipHash on top of it is not modelled (trusted to be
                  injective on the texts of a run).
* `normalizeOld`— the normaliser before the repair (`split_whitespace().join(" ").to_lowercase()`,
                  ASCII part), kept for the counterexample theorems that motivated the repair.
* `extractTables` — `extract_tables_from_select`.
* `get` / `insert` / `invalidateTable` — `QueryResultCache`; the victim of an eviction is a
                  parameter (the code evicts whatever key its `HashMap` yields first).
* `stepA` / `stepD` — the adapter protocol (SELECT → get, or execute and insert; a write on `t` →
                  `invalidate_table(t)` then execute) and plain execution.
-/
namespace VibeProof.QCache

/-! ## characters -/

/-- Rust `char::is_whitespace` (Unicode `White_Space`) -/
def isWs (c : Char) : Bool :=
  let n := c.toNat
  (9 ≤ n && n ≤ 13) || n == 32 || n == 0x85 || n == 0xA0 || n == 0x1680 ||
  (0x2000 ≤ n && n ≤ 0x200A) || n == 0x2028 || n == 0x2029 || n == 0x202F || n == 0x205F || n == 0x3000

def isQuote (c : Char) : Bool := c == '\'' || c == '"' || c == '`'

def upperLower : List (Char × Char) :=
  [('A','a'),('B','b'),('C','c'),('D','d'),('E','e'),('F','f'),('G','g'),('H','h'),('I','i'),
   ('J','j'),('K','k'),('L','l'),('M','m'),('N','n'),('O','o'),('P','p'),('Q','q'),('R','r'),
   ('S','s'),('T','t'),('U','u'),('V','v'),('W','w'),('X','x'),('Y','y'),('Z','z')]

def lookupC (c : Char) : List (Char × Char) → Option Char
  | [] => none
  | (u, l) :: rest => if c = u then some l else lookupC c rest

/-- `char::to_ascii_lowercase` -/
def lower (c : Char) : Char :=
  match lookupC c upperLower with
  | some l => l
  | none => c

/-! ## the signature normaliser (after the repair) -/

inductive Mode where
  | out
  | quote (d : Char)
  | comment
  deriving DecidableEq, Repr

/-- what the normaliser keeps of the text: lower-cased characters outside quotes, one separator
    per run of whitespace / comments between kept characters, quoted text verbatim (delimiters
    included) -/
inductive Piece where
  | ch (c : Char)
  | sep
  | q (c : Char)
  deriving DecidableEq, Repr

/-- the scanner of `normalize`: `p` = a separator is pending, `e` = something was emitted.
    Entering comment mode consumes the first `-`; the second one is dropped by comment mode
    like every other character up to the line feed. -/
def scan : Mode → Bool → Bool → List Char → List Piece
  | _, _, _, [] => []
  | .quote d, _, _, c :: cs => .q c :: scan (if c = d then .out else .quote d) false true cs
  | .comment, _, e, c :: cs => if c = '\n' then scan .out true e cs else scan .comment true e cs
  | .out, p, e, c :: cs =>
    if isWs c then scan .out true e cs
    else if c = '-' ∧ cs.head? = some '-' then scan .comment true e cs
    else
      (if p && e then [Piece.sep] else []) ++
        (if isQuote c then Piece.q c :: scan (.quote c) false true cs
         else Piece.ch (lower c) :: scan .out false true cs)

def render : Piece → Char
  | .ch c => c
  | .sep => ' '
  | .q c => c

def pieces (s : List Char) : List Piece := scan .out false false s

/-- `QuerySignature::normalize` -/
def normalizeQ (s : List Char) : List Char := (pieces s).map render

/-- the quoted text of a query (string literals and delimited identifiers), delimiters included -/
def quoted : List Piece → List Char
  | [] => []
  | .q c :: ps => c :: quoted ps
  | _ :: ps => quoted ps

/-! ## quoted regions, specified directly on the text (independently of `scan`) -/

inductive RMode where
  | out
  | inq (d : Char)
  | comment
  deriving DecidableEq, Repr

/-- the quoted regions of a text in order: (opening delimiter, every character up to — not
    including — the *matching* closing delimiter, or up to the end of the text if unterminated).
    Other delimiter characters inside a region are ordinary content. -/
def regionsGo : RMode → List Char → List Char → List (Char × List Char)
  | .inq d, acc, [] => [(d, acc)]
  | .out, _, [] => []
  | .comment, _, [] => []
  | .inq d, acc, c :: cs =>
    if c = d then (d, acc) :: regionsGo .out [] cs else regionsGo (.inq d) (acc ++ [c]) cs
  | .comment, _, c :: cs => if c = '\n' then regionsGo .out [] cs else regionsGo .comment [] cs
  | .out, _, c :: cs =>
    if isWs c then regionsGo .out [] cs
    else if c = '-' ∧ cs.head? = some '-' then regionsGo .comment [] cs
    else if isQuote c then regionsGo (.inq c) [] cs
    else regionsGo .out [] cs

def regions (s : List Char) : List (Char × List Char) := regionsGo .out [] s

/-- the same regions read off the scanner's pieces -/
def regionsP : Option Char → List Char → List Piece → List (Char × List Char)
  | some d, acc, [] => [(d, acc)]
  | none, _, [] => []
  | some d, acc, .q c :: ps =>
    if c = d then (d, acc) :: regionsP none [] ps else regionsP (some d) (acc ++ [c]) ps
  | some d, acc, _ :: ps => regionsP (some d) acc ps
  | none, _, .q c :: ps => regionsP (some c) [] ps
  | none, _, _ :: ps => regionsP none [] ps

/-! ## the normaliser before the repair -/

def oldGo : Bool → Bool → List Char → List Char
  | _, _, [] => []
  | p, e, c :: cs =>
    if isWs c then oldGo true e cs
    else (if p && e then [' '] else []) ++ lower c :: oldGo false true cs

/-- `sql.split_whitespace().collect::<Vec<_>>().join(" ").to_lowercase()` (ASCII letters) -/
def normalizeOld (s : List Char) : List Char := oldGo false false s

/-! ## table extraction (`table_extractor.rs`) -/

mutual
  /-- `SelectStmt` as far as the extractor looks at it -/
  inductive Sel where
    | mk (frm : From) (selectList : Expr) (whereC : Expr) (groupBy : Expr) (having : Expr)
         (orderBy : Expr) (ctes : SelList) (setOp : SelList)
  inductive From where
    | none
    | table (name : String)
    | join (l r : From) (on : Expr)
    | sub (q : Sel)
  /-- expressions: `leaf` = no subquery below (literals, columns, and — as coded — window
      functions and the other forms the extractor treats as leaves); `node` = any operator /
      function / CASE / IN-list with its children folded pairwise; `sub` = scalar subquery,
      EXISTS, the subquery of IN / quantified comparison -/
  inductive Expr where
    | leaf
    | node (a b : Expr)
    | sub (q : Sel)
  inductive SelList where
    | nil
    | cons (s : Sel) (rest : SelList)
end

/-- `if let Some(pos) = name.rfind('.') { &name[pos + 1..] } else { name }` -/
def cutGo : List Char → List Char → List Char
  | acc, [] => acc
  | acc, c :: cs => if c = '.' then cutGo [] cs else cutGo (acc ++ [c]) cs

def cutQualifier (name : String) : String := String.ofList (cutGo [] name.toList)

mutual
  def Sel.tables : Sel → List String
    | .mk f sl w g h o ctes so =>
      f.tables ++ sl.tables ++ w.tables ++ g.tables ++ h.tables ++ o.tables ++ ctes.tables ++ so.tables
  def From.tables : From → List String
    | .none => []
    | .table n => [cutQualifier n]
    | .join l r on => l.tables ++ r.tables ++ on.tables
    | .sub q => q.tables
  def Expr.tables : Expr → List String
    | .leaf => []
    | .node a b => a.tables ++ b.tables
    | .sub q => q.tables
  def SelList.tables : SelList → List String
    | .nil => []
    | .cons s rest => s.tables ++ rest.tables
end

/-- `extract_tables_from_select` (a `HashSet` in the code: order and multiplicity are not
    observable) -/
def extractTables (s : Sel) : List String := s.tables

/-! ## the cache (`QueryResultCache`) -/

structure Entry (R : Type) where
  sig : List Char
  rows : R
  tables : List String

/-- key of `str::eq_ignore_ascii_case` -/
def icKey (s : String) : List Char := s.toList.map lower

def eqIC (a b : String) : Bool := icKey a == icKey b

def get {R : Type} (c : List (Entry R)) (sig : List Char) : Option R :=
  match c.find? (fun e => e.sig == sig) with
  | some e => some e.rows
  | none => none

/-- `insert`: at capacity (`len >= max_size`) one entry — the `victim`-th, whichever the hash
    map yields — is evicted first; then the entry replaces any entry with the same key -/
def insert {R : Type} (max victim : Nat) (c : List (Entry R)) (e : Entry R) : List (Entry R) :=
  let c1 := if c.length ≥ max then c.eraseIdx (victim % c.length) else c
  e :: c1.filter (fun x => !(x.sig == e.sig))

/-- `invalidate_table`: `retain(|_, e| !e.tables.iter().any(|t| t.eq_ignore_ascii_case(table)))` -/
def invalidateTable {R : Type} (c : List (Entry R)) (t : String) : List (Entry R) :=
  c.filter (fun e => !(e.tables.any (fun n => eqIC n t)))

/-! ## the adapter protocol around the cache, for any engine -/

/-- the engine and the two functions the cache relies on, as parameters -/
structure World (DB Q R C : Type) where
  exec : DB → Q → R
  /-- errors are returned, never cached -/
  cacheable : R → Bool
  sig : Q → List Char
  tabs : Q → List String
  /-- contents of a table, by name -/
  tbl : DB → String → C

inductive Op (DB Q : Type) where
  | select (q : Q) (victim : Nat)
  | write (t : String) (f : DB → DB)

structure St (DB R : Type) where
  db : DB
  cache : List (Entry R)

/-- cache-backed execution, as the sqllogictest adapter does it -/
def stepA {DB Q R C : Type} (w : World DB Q R C) (max : Nat) (st : St DB R) : Op DB Q → St DB R × Option R
  | .select q victim =>
    match get st.cache (w.sig q) with
    | some r => (st, some r)
    | none =>
      let r := w.exec st.db q
      if w.cacheable r then
        ({ st with cache := insert max victim st.cache ⟨w.sig q, r, w.tabs q⟩ }, some r)
      else (st, some r)
  | .write t f => ({ db := f st.db, cache := invalidateTable st.cache t }, none)

/-- plain execution -/
def stepD {DB Q R C : Type} (w : World DB Q R C) (db : DB) : Op DB Q → DB × Option R
  | .select q _ => (db, some (w.exec db q))
  | .write _ f => (f db, none)

def runA {DB Q R C : Type} (w : World DB Q R C) (max : Nat) : St DB R → List (Op DB Q) → St DB R × List (Option R)
  | st, [] => (st, [])
  | st, op :: ops =>
    let (st1, o) := stepA w max st op
    let (st2, os) := runA w max st1 ops
    (st2, o :: os)

def runD {DB Q R C : Type} (w : World DB Q R C) : DB → List (Op DB Q) → DB × List (Option R)
  | db, [] => (db, [])
  | db, op :: ops =>
    let (db1, o) := stepD w db op
    let (db2, os) := runD w db1 ops
    (db2, o :: os)

end VibeProof.QCache
