//! C34 — row triggers fire once per affected row with the right row images.
//!
//! Tables: T(C0,C1,C2 INT, CHECK (C2 <> 77)) carries the triggers; A(TID, O0..O2, N0..N2) is the
//! audit table with CHECK (TID < 90), CHECK (O1 <> 66), CHECK (N1 <> 66) (a "poison" value makes a
//! trigger body fail by a constraint violation); U is a decoy table whose triggers must never
//! fire; S is the source of INSERT … SELECT.  Triggers are registered the way the repository's
//! own tests do it (`CreateTriggerStmt` + `TriggerAction::RawSql` → `TriggerExecutor`).
//!
//! Correspondence: outcome class, T in storage order and A in storage order vs the Lean model
//! (`Trigger.exec`), given the catalog's trigger iteration order.  Direct oracle (no model):
//! per trigger, the audit rows are exactly the pre-/post-images of the affected rows that pass
//! UPDATE OF / WHEN; statement triggers exactly one row; a failing statement leaves T and A
//! unchanged.
use std::collections::BTreeMap;

use vharness::*;
use vibesql_ast::*;
use vibesql_types::SqlValue;

type V = Option<i64>; // NULL or integer
type R = Vec<V>;

const BAD_TID: u64 = 90;
const BAD_COL: usize = 1;
const BAD_VAL: i64 = 66;
const OK_COL: usize = 2;
const OK_VAL: i64 = 77;

#[derive(Clone, Debug, PartialEq)]
enum Ev {
    Ins,
    Del,
    Upd(Option<Vec<usize>>), // column positions; >= 3 = a name that is not a column
}
#[derive(Clone, Copy, Debug, PartialEq)]
enum Src {
    Base,
    Old,
    New,
}
#[derive(Clone, Copy, Debug, PartialEq)]
enum Cmp {
    Eq,
    Ne,
    Lt,
    Le,
    Gt,
    Ge,
}
/// expression over the base row / OLD / NEW (mirrors `TExpr` of the Lean model)
#[derive(Clone, Debug, PartialEq)]
enum TE {
    Lit(V),
    Col(Src, usize),
    Bin(&'static str, Box<TE>, Box<TE>),
    Ite(Box<TE>, Box<TE>, Box<TE>),
    Coal(Box<TE>, Box<TE>),
}
#[derive(Clone, Copy, Debug, PartialEq)]
enum Val {
    Null,
    Int(i64),
    Bool(bool),
}
impl TE {
    fn bin(op: &'static str, a: TE, b: TE) -> TE {
        TE::Bin(op, Box::new(a), Box::new(b))
    }
    fn sql(&self) -> String {
        match self {
            TE::Lit(v) => v_sql(v),
            TE::Col(s, c) => format!("{}C{}", s.sql(), c),
            TE::Bin(op, a, b) => {
                let o = match *op {
                    "add" => "+",
                    "sub" => "-",
                    "eq" => "=",
                    "ne" => "<>",
                    "lt" => "<",
                    "le" => "<=",
                    "gt" => ">",
                    "ge" => ">=",
                    "and" => "AND",
                    _ => "OR",
                };
                format!("({} {} {})", a.sql(), o, b.sql())
            }
            TE::Ite(c, t, e) => format!("CASE WHEN {} THEN {} ELSE {} END", c.sql(), t.sql(), e.sql()),
            TE::Coal(a, b) => format!("COALESCE({}, {})", a.sql(), b.sql()),
        }
    }
    fn sx(&self) -> String {
        match self {
            TE::Lit(v) => format!("(lit {})", v_sx(v)),
            TE::Col(s, c) => format!("(c {} {})", s.sx(), c),
            TE::Bin(op, a, b) => format!("({} {} {})", op, a.sx(), b.sx()),
            TE::Ite(c, t, e) => format!("(ite {} {} {})", c.sx(), t.sx(), e.sx()),
            TE::Coal(a, b) => format!("(coal {} {})", a.sx(), b.sx()),
        }
    }
    /// SQL semantics on the images the property names: OLD = row before, NEW = row after
    fn eval(&self, old: &Option<R>, new: &Option<R>, base: Option<&R>) -> Option<Val> {
        let v = |x: V| x.map(Val::Int).unwrap_or(Val::Null);
        Some(match self {
            TE::Lit(x) => v(*x),
            TE::Col(Src::Base, c) => v(*base?.get(*c)?),
            TE::Col(Src::Old, c) => v(*old.as_ref()?.get(*c)?),
            TE::Col(Src::New, c) => v(*new.as_ref()?.get(*c)?),
            TE::Bin(op, a, b) => {
                let (x, y) = (a.eval(old, new, base)?, b.eval(old, new, base)?);
                match (*op, x, y) {
                    ("and", Val::Bool(false), _) | ("and", _, Val::Bool(false)) => Val::Bool(false),
                    ("and", Val::Bool(true), Val::Bool(true)) => Val::Bool(true),
                    ("and", Val::Null | Val::Bool(_), Val::Null | Val::Bool(_)) => Val::Null,
                    ("or", Val::Bool(true), _) | ("or", _, Val::Bool(true)) => Val::Bool(true),
                    ("or", Val::Bool(false), Val::Bool(false)) => Val::Bool(false),
                    ("or", Val::Null | Val::Bool(_), Val::Null | Val::Bool(_)) => Val::Null,
                    ("and" | "or", _, _) => return None,
                    (_, Val::Null, _) | (_, _, Val::Null) => Val::Null,
                    ("add", Val::Int(p), Val::Int(q)) => Val::Int(p + q),
                    ("sub", Val::Int(p), Val::Int(q)) => Val::Int(p - q),
                    ("eq", Val::Int(p), Val::Int(q)) => Val::Bool(p == q),
                    ("ne", Val::Int(p), Val::Int(q)) => Val::Bool(p != q),
                    ("lt", Val::Int(p), Val::Int(q)) => Val::Bool(p < q),
                    ("le", Val::Int(p), Val::Int(q)) => Val::Bool(p <= q),
                    ("gt", Val::Int(p), Val::Int(q)) => Val::Bool(p > q),
                    ("ge", Val::Int(p), Val::Int(q)) => Val::Bool(p >= q),
                    _ => return None,
                }
            }
            TE::Ite(c, t, e) => {
                if c.eval(old, new, base)? == Val::Bool(true) {
                    t.eval(old, new, base)?
                } else {
                    e.eval(old, new, base)?
                }
            }
            TE::Coal(a, b) => match a.eval(old, new, base)? {
                Val::Null => b.eval(old, new, base)?,
                x => x,
            },
        })
    }
}
#[derive(Clone, Debug, PartialEq)]
enum W {
    Cmp(Src, usize, Cmp, i64),
    Raw(Src, usize),
    Expr(TE),
}
#[derive(Clone, Debug, PartialEq)]
enum Act {
    /// INSERT INTO A VALUES (tid, NULL, NULL, NULL, <expr>, NULL, NULL)
    AuditX(TE),
    /// UPDATE T SET Cc = <expr> WHERE <expr>
    UpdX(usize, TE, TE),
    /// DELETE FROM T WHERE <expr>
    DelX(TE),
    Audit(bool, bool),
    Reinsert,
    InsRow(R),
    Decr(Src, usize),
    DelKey(Src),
}
#[derive(Clone, Debug)]
struct Trig {
    tid: u64,
    table: u8, // 0 = T, 1 = U
    timing: u8, // 0 before, 1 after, 2 instead of
    ev: Ev,
    row: bool,
    enabled: bool,
    when: Option<W>,
    body: Vec<Act>,
}
#[derive(Clone, Debug)]
enum Sel {
    All,
    Cmp(usize, Cmp, i64),
}
#[derive(Clone, Debug)]
enum Asg {
    Set(usize, i64),
    Add(usize, i64),
    Null(usize),
}
#[derive(Clone, Debug)]
enum St {
    /// how: 0 = VALUES, 1 = INSERT … SELECT * FROM S WHERE C0 >= 0, 2 = INSERT … SELECT * FROM S
    Ins(Vec<R>, u8),
    Upd(Sel, Vec<Asg>),
    Del(Option<Sel>),
}
#[derive(Clone, Debug)]
struct Case {
    rows: Vec<R>,
    trigs: Vec<Trig>,
    st: St,
}

fn colname(c: usize) -> String {
    if c < 3 {
        format!("C{}", c)
    } else {
        format!("ZZ{}", c)
    }
}
fn v_sql(v: &V) -> String {
    match v {
        None => "NULL".into(),
        Some(i) => i.to_string(),
    }
}
fn v_sx(v: &V) -> String {
    match v {
        None => "N".into(),
        Some(i) => format!("I{}", i),
    }
}
fn row_sx(r: &R) -> String {
    format!("({})", r.iter().map(v_sx).collect::<Vec<_>>().join(" "))
}
fn rows_sql(rows: &[R]) -> String {
    rows.iter().map(|r| format!("({})", r.iter().map(v_sql).collect::<Vec<_>>().join(", "))).collect::<Vec<_>>().join(", ")
}
impl Cmp {
    fn sql(self) -> &'static str {
        match self {
            Cmp::Eq => "=",
            Cmp::Ne => "<>",
            Cmp::Lt => "<",
            Cmp::Le => "<=",
            Cmp::Gt => ">",
            Cmp::Ge => ">=",
        }
    }
    fn sx(self) -> &'static str {
        match self {
            Cmp::Eq => "eq",
            Cmp::Ne => "ne",
            Cmp::Lt => "lt",
            Cmp::Le => "le",
            Cmp::Gt => "gt",
            Cmp::Ge => "ge",
        }
    }
    fn holds(self, a: i64, b: i64) -> bool {
        match self {
            Cmp::Eq => a == b,
            Cmp::Ne => a != b,
            Cmp::Lt => a < b,
            Cmp::Le => a <= b,
            Cmp::Gt => a > b,
            Cmp::Ge => a >= b,
        }
    }
    fn op(self) -> BinaryOperator {
        match self {
            Cmp::Eq => BinaryOperator::Equal,
            Cmp::Ne => BinaryOperator::NotEqual,
            Cmp::Lt => BinaryOperator::LessThan,
            Cmp::Le => BinaryOperator::LessThanOrEqual,
            Cmp::Gt => BinaryOperator::GreaterThan,
            Cmp::Ge => BinaryOperator::GreaterThanOrEqual,
        }
    }
}
impl Src {
    fn sx(self) -> &'static str {
        match self {
            Src::Base => "base",
            Src::Old => "old",
            Src::New => "new",
        }
    }
    fn sql(self) -> &'static str {
        match self {
            Src::Base => "",
            Src::Old => "OLD.",
            Src::New => "NEW.",
        }
    }
    fn expr(self, c: usize) -> Expression {
        match self {
            Src::Base => Expression::ColumnRef { table: None, column: colname(c) },
            Src::Old => Expression::PseudoVariable { pseudo_table: PseudoTable::Old, column: colname(c) },
            Src::New => Expression::PseudoVariable { pseudo_table: PseudoTable::New, column: colname(c) },
        }
    }
}
/// the expression AST the parser builds for `text` (OLD.c / NEW.c become pseudo-variables)
fn parse_expr(text: &str) -> Expression {
    match vibesql_parser::Parser::parse_sql(&format!("SELECT {}", text)) {
        Ok(Statement::Select(sel)) => match sel.select_list.into_iter().next() {
            Some(SelectItem::Expression { expr, .. }) => expr,
            other => panic!("harness precondition: select item {:?}", other),
        },
        other => panic!("harness precondition: cannot parse expression {}: {:?}", text, other),
    }
}

impl W {
    fn expr(&self) -> Expression {
        match self {
            W::Cmp(s, c, op, k) => Expression::BinaryOp {
                op: op.op(),
                left: Box::new(s.expr(*c)),
                right: Box::new(Expression::Literal(SqlValue::Integer(*k))),
            },
            W::Raw(s, c) => s.expr(*c),
            W::Expr(e) => parse_expr(&e.sql()),
        }
    }
    fn sx(&self) -> String {
        match self {
            W::Cmp(s, c, op, k) => format!("(cmp {} {} {} {})", s.sx(), c, op.sx(), k),
            W::Raw(s, c) => format!("(raw {} {})", s.sx(), c),
            W::Expr(e) => format!("(expr {})", e.sx()),
        }
    }
    fn text(&self) -> String {
        match self {
            W::Cmp(s, c, op, k) => format!("{}C{} {} {}", s.sql(), c, op.sql(), k),
            W::Raw(s, c) => format!("{}C{}", s.sql(), c),
            W::Expr(e) => e.sql(),
        }
    }
}
impl Act {
    fn sql(&self, tid: u64) -> String {
        let img = |p: &str, on: bool| -> String {
            (0..3).map(|c| if on { format!("{}.C{}", p, c) } else { "NULL".to_string() }).collect::<Vec<_>>().join(", ")
        };
        match self {
            Act::Audit(uo, un) => format!("INSERT INTO A VALUES ({}, {}, {})", tid, img("OLD", *uo), img("NEW", *un)),
            Act::AuditX(e) => format!("INSERT INTO A VALUES ({}, NULL, NULL, NULL, {}, NULL, NULL)", tid, e.sql()),
            Act::UpdX(c, se, we) => format!("UPDATE T SET C{} = {} WHERE {}", c, se.sql(), we.sql()),
            Act::DelX(we) => format!("DELETE FROM T WHERE {}", we.sql()),
            Act::Reinsert => "INSERT INTO T VALUES (NEW.C0, NEW.C1, NEW.C2)".into(),
            Act::InsRow(r) => format!("INSERT INTO T VALUES {}", rows_sql(&[r.clone()])),
            Act::Decr(s, c) => format!("UPDATE T SET C{c} = C{c} - 1 WHERE C0 = {p}C0 AND C{c} > 0", c = c, p = s.sql()),
            Act::DelKey(s) => format!("DELETE FROM T WHERE C0 = {}C0", s.sql()),
        }
    }
    fn sx(&self) -> String {
        match self {
            Act::Audit(uo, un) => format!("(audit {} {})", *uo as u8, *un as u8),
            Act::AuditX(e) => format!("(auditx {})", e.sx()),
            Act::UpdX(c, se, we) => format!("(updx {} {} {})", c, se.sx(), we.sx()),
            Act::DelX(we) => format!("(delx {})", we.sx()),
            Act::Reinsert => "(reinsert)".into(),
            Act::InsRow(r) => format!("(insrow {})", r.iter().map(v_sx).collect::<Vec<_>>().join(" ")),
            Act::Decr(s, c) => format!("(decr {} {})", s.sx(), c),
            Act::DelKey(s) => format!("(delkey {})", s.sx()),
        }
    }
    fn nested(&self) -> bool {
        !matches!(self, Act::Audit(..) | Act::AuditX(..))
    }
}
impl Ev {
    fn ast(&self) -> TriggerEvent {
        match self {
            Ev::Ins => TriggerEvent::Insert,
            Ev::Del => TriggerEvent::Delete,
            Ev::Upd(None) => TriggerEvent::Update(None),
            Ev::Upd(Some(cs)) => TriggerEvent::Update(Some(cs.iter().map(|c| colname(*c)).collect())),
        }
    }
    fn sx(&self) -> String {
        match self {
            Ev::Ins => "ins".into(),
            Ev::Del => "del".into(),
            Ev::Upd(None) => "(upd)".into(),
            Ev::Upd(Some(cs)) => format!("(updof{})", cs.iter().map(|c| format!(" {}", c)).collect::<String>()),
        }
    }
    fn kind(&self) -> u8 {
        match self {
            Ev::Ins => 0,
            Ev::Upd(_) => 1,
            Ev::Del => 2,
        }
    }
}
impl Trig {
    fn name(&self) -> String {
        format!("TG{}", self.tid)
    }
    fn body_sql(&self) -> String {
        self.body.iter().map(|a| a.sql(self.tid)).collect::<Vec<_>>().join("; ")
    }
    fn sx(&self) -> String {
        format!(
            "(t {} {} {} {} {} {} {} ({}))",
            self.tid,
            self.table,
            ["b", "a", "i"][self.timing as usize],
            self.ev.sx(),
            if self.row { "row" } else { "stmt" },
            self.enabled as u8,
            self.when.as_ref().map(|w| w.sx()).unwrap_or("none".into()),
            self.body.iter().map(|a| a.sx()).collect::<Vec<_>>().join(" ")
        )
    }
    fn describe(&self) -> String {
        format!(
            "-- trigger {} ON {} {} {:?} FOR EACH {}{}{}: {}",
            self.name(),
            if self.table == 0 { "T" } else { "U" },
            ["BEFORE", "AFTER", "INSTEAD OF"][self.timing as usize],
            self.ev.ast(),
            if self.row { "ROW" } else { "STATEMENT" },
            self.when.as_ref().map(|w| format!(" WHEN ({})", w.text())).unwrap_or_default(),
            if self.enabled { "" } else { " [DISABLED]" },
            self.body_sql()
        )
    }
    fn register(&self, db: &mut Db) {
        let stmt = CreateTriggerStmt {
            trigger_name: self.name(),
            timing: [TriggerTiming::Before, TriggerTiming::After, TriggerTiming::InsteadOf][self.timing as usize].clone(),
            event: self.ev.ast(),
            table_name: if self.table == 0 { "T".into() } else { "U".into() },
            granularity: if self.row { TriggerGranularity::Row } else { TriggerGranularity::Statement },
            when_condition: self.when.as_ref().map(|w| Box::new(w.expr())),
            triggered_action: TriggerAction::RawSql(self.body_sql()),
        };
        vibesql_executor::TriggerExecutor::create_trigger(&mut db.db, &stmt).expect("harness precondition: create trigger");
        if !self.enabled {
            vibesql_executor::TriggerExecutor::alter_trigger(
                &mut db.db,
                &AlterTriggerStmt { trigger_name: self.name(), action: AlterTriggerAction::Disable },
            )
            .expect("harness precondition: disable trigger");
        }
        db.log.push(self.describe());
    }
}
impl Sel {
    fn sql(&self) -> String {
        match self {
            Sel::All => String::new(),
            Sel::Cmp(c, op, k) => format!(" WHERE C{} {} {}", c, op.sql(), k),
        }
    }
    fn sx(&self) -> String {
        match self {
            Sel::All => "(all)".into(),
            Sel::Cmp(c, op, k) => format!("(cmp {} {} {})", c, op.sx(), k),
        }
    }
    fn holds(&self, r: &R) -> bool {
        match self {
            Sel::All => true,
            Sel::Cmp(c, op, k) => r[*c].map(|v| op.holds(v, *k)).unwrap_or(false),
        }
    }
}
impl Asg {
    fn col(&self) -> usize {
        match self {
            Asg::Set(c, _) | Asg::Add(c, _) | Asg::Null(c) => *c,
        }
    }
    fn sql(&self) -> String {
        match self {
            Asg::Set(c, k) => format!("C{} = {}", c, k),
            Asg::Add(c, k) => format!("C{} = C{} + {}", c, c, k),
            Asg::Null(c) => format!("C{} = NULL", c),
        }
    }
    fn sx(&self) -> String {
        match self {
            Asg::Set(c, k) => format!("({} set {})", c, k),
            Asg::Add(c, k) => format!("({} add {})", c, k),
            Asg::Null(c) => format!("({} null)", c),
        }
    }
    fn apply(&self, orig: &R, acc: &mut R) {
        match self {
            Asg::Set(c, k) => acc[*c] = Some(*k),
            Asg::Add(c, k) => acc[*c] = orig[*c].map(|v| v + k),
            Asg::Null(c) => acc[*c] = None,
        }
    }
}
impl St {
    fn kind(&self) -> u8 {
        match self {
            St::Ins(..) => 0,
            St::Upd(..) => 1,
            St::Del(..) => 2,
        }
    }
    fn sql(&self) -> String {
        match self {
            St::Ins(rows, 0) => format!("INSERT INTO T VALUES {}", rows_sql(rows)),
            St::Ins(_, 1) => "INSERT INTO T SELECT * FROM S WHERE C0 >= 0".into(),
            St::Ins(_, _) => "INSERT INTO T SELECT * FROM S".into(),
            St::Upd(sel, asg) => format!("UPDATE T SET {}{}", asg.iter().map(|a| a.sql()).collect::<Vec<_>>().join(", "), sel.sql()),
            St::Del(None) => "DELETE FROM T".into(),
            St::Del(Some(sel)) => format!("DELETE FROM T{}", sel.sql()),
        }
    }
    fn sx(&self) -> String {
        match self {
            St::Ins(rows, _) => format!("(ins {})", rows.iter().map(row_sx).collect::<Vec<_>>().join(" ")),
            St::Upd(sel, asg) => format!("(upd {} {})", sel.sx(), asg.iter().map(|a| a.sx()).collect::<Vec<_>>().join(" ")),
            St::Del(None) => "(delall)".into(),
            St::Del(Some(sel)) => format!("(del {})", sel.sx()),
        }
    }
    /// (OLD image, NEW image) of every affected row, computed from the pre-snapshot alone
    fn affected(&self, pre: &[R]) -> Vec<(Option<R>, Option<R>)> {
        match self {
            St::Ins(rows, _) => rows.iter().map(|r| (None, Some(r.clone()))).collect(),
            St::Upd(sel, asg) => pre
                .iter()
                .filter(|r| sel.holds(r))
                .map(|r| {
                    let mut n = r.clone();
                    for a in asg {
                        a.apply(r, &mut n);
                    }
                    (Some(r.clone()), Some(n))
                })
                .collect(),
            St::Del(sel) => pre.iter().filter(|r| sel.as_ref().map(|s| s.holds(r)).unwrap_or(true)).map(|r| (Some(r.clone()), None)).collect(),
        }
    }
}

fn setup(case: &Case) -> Db {
    let mut db = Db::new();
    db.must("CREATE TABLE T (C0 INT, C1 INT, C2 INT, CHECK (C2 <> 77))");
    db.must("CREATE TABLE A (TID INT, O0 INT, O1 INT, O2 INT, N0 INT, N1 INT, N2 INT, CHECK (TID < 90), CHECK (O1 <> 66), CHECK (N1 <> 66))");
    db.must("CREATE TABLE U (C0 INT, C1 INT, C2 INT)");
    db.must("CREATE TABLE S (C0 INT, C1 INT, C2 INT)");
    if !case.rows.is_empty() {
        db.must(&format!("INSERT INTO T VALUES {}", rows_sql(&case.rows)));
    }
    if let St::Ins(rows, how) = &case.st {
        if *how > 0 && !rows.is_empty() {
            db.must(&format!("INSERT INTO S VALUES {}", rows_sql(rows)));
        }
    }
    for t in &case.trigs {
        t.register(&mut db);
    }
    db
}

fn scan_t(db: &Db, table: &str) -> Vec<R> {
    db.scan(table)
        .expect("harness precondition: table exists")
        .iter()
        .map(|r| {
            r.iter()
                .map(|v| match v {
                    SqlValue::Null => None,
                    SqlValue::Integer(i) | SqlValue::Bigint(i) => Some(*i),
                    SqlValue::Smallint(i) => Some(*i as i64),
                    other => panic!("harness precondition: unexpected value {:?}", other),
                })
                .collect()
        })
        .collect()
}

fn err_class(o: &Out) -> String {
    match o {
        Out::Count(n) => format!("(ok {})", n),
        Out::Rows(_) => "(rows)".into(),
        Out::Panic(m) => format!("(panic {})", m.replace(' ', "_")),
        Out::Err { class, msg } => {
            let k = if msg.contains("recursion depth") {
                "recursion"
            } else if class == "ConstraintViolation" {
                "constraint"
            } else if msg.contains("pseudo-variable not available") {
                "pseudo"
            } else if msg.contains("requires a row context") {
                "whennorow"
            } else if msg.contains("must evaluate to boolean") {
                "whentype"
            } else if class == "StorageError" {
                "storage"
            } else {
                return format!("(err other:{})", msg.replace(' ', "_").chars().take(120).collect::<String>());
            };
            format!("(err {})", k)
        }
    }
}

/// the catalog's iteration order of the triggers (the HashMap order the firing loops see)
fn real_order(db: &Db, trigs: &[Trig]) -> Vec<Trig> {
    let mut out = vec![];
    for table in ["T", "U"] {
        for d in db.db.catalog.get_triggers_for_table(table, None) {
            if let Some(t) = trigs.iter().find(|t| t.name() == d.name) {
                out.push(t.clone());
            }
        }
    }
    assert_eq!(out.len(), trigs.len(), "harness precondition: every trigger is in the catalog");
    out
}

fn audit_sx(a: &[R]) -> String {
    let img = |s: &[V]| -> String {
        if s.iter().all(|v| v.is_none()) {
            "-".into()
        } else {
            row_sx(&s.to_vec())
        }
    };
    a.iter().map(|r| format!("({} {} {})", v_sx(&r[0]).trim_start_matches('I'), img(&r[1..4]), img(&r[4..7]))).collect::<Vec<_>>().join(" ")
}

/// model reply → same text with all-NULL images shown as `-`
fn norm_model(reply: &str) -> String {
    match reply.find("(log") {
        Some(i) => format!("{}{}", &reply[..i], reply[i..].replace("(N N N)", "-")),
        None => reply.to_string(),
    }
}

struct Run {
    out: String,
    pre_t: Vec<R>,
    post_t: Vec<R>,
    post_a: Vec<R>,
    order: Vec<Trig>,
    count: Option<usize>,
}

fn run_real(case: &Case, db: &mut Db) -> Run {
    let order = real_order(db, &case.trigs);
    let pre_t = scan_t(db, "T");
    let o = db.exec(&case.st.sql());
    let count = if let Out::Count(n) = &o { Some(*n) } else { None };
    Run { out: err_class(&o), pre_t, post_t: scan_t(db, "T"), post_a: scan_t(db, "A"), order, count }
}

fn model_request(case: &Case, order: &[Trig]) -> String {
    format!(
        "run (cfg (bad {} {} {}) (ok {} {})) (trigs {}) (rows {}) {}",
        BAD_TID,
        BAD_COL,
        BAD_VAL,
        OK_COL,
        OK_VAL,
        order.iter().map(|t| t.sx()).collect::<Vec<_>>().join(" "),
        case.rows.iter().map(row_sx).collect::<Vec<_>>().join(" "),
        case.st.sx()
    )
}

fn when_holds(w: &W, old: &Option<R>, new: &Option<R>) -> Option<bool> {
    let base = new.as_ref().or(old.as_ref())?;
    let get = |s: Src, c: usize| -> Option<V> {
        match s {
            Src::Base => Some(base[c]),
            Src::Old => old.as_ref().map(|r| r[c]),
            Src::New => new.as_ref().map(|r| r[c]),
        }
    };
    match w {
        W::Cmp(s, c, op, k) => get(*s, *c).map(|v| v.map(|v| op.holds(v, *k)).unwrap_or(false)),
        W::Raw(..) => None, // not boolean: the statement must fail
        W::Expr(e) => match e.eval(old, new, Some(base))? {
            Val::Bool(b) => Some(b),
            Val::Null => Some(false),
            Val::Int(_) => None,
        },
    }
}

/// what the property demands of a SUCCESSFUL statement, per trigger, from snapshots only.
/// Applies when no trigger of the case has a nested action.
fn oracle_success(case: &Case, r: &Run) -> Vec<String> {
    let mut bad = vec![];
    let affected = case.st.affected(&r.pre_t);
    if let Some(n) = r.count {
        if n != affected.len() {
            bad.push(format!("statement reports {} affected rows, the WHERE clause selects {}", n, affected.len()));
        }
    }
    // post image of T
    let mut expect_t: Vec<R> = match &case.st {
        St::Ins(rows, _) => r.pre_t.iter().cloned().chain(rows.iter().cloned()).collect(),
        St::Upd(sel, asg) => r
            .pre_t
            .iter()
            .map(|x| {
                if sel.holds(x) {
                    let mut n = x.clone();
                    for a in asg {
                        a.apply(x, &mut n);
                    }
                    n
                } else {
                    x.clone()
                }
            })
            .collect(),
        St::Del(sel) => r.pre_t.iter().filter(|x| !sel.as_ref().map(|s| s.holds(x)).unwrap_or(true)).cloned().collect(),
    };
    let mut got_t = r.post_t.clone();
    expect_t.sort();
    got_t.sort();
    if expect_t != got_t {
        bad.push(format!("table T after the statement is {:?}, expected {:?}", got_t, expect_t));
    }
    let mut by_tid: BTreeMap<u64, Vec<R>> = BTreeMap::new();
    for a in &r.post_a {
        by_tid.entry(a[0].unwrap_or(-1) as u64).or_default().push(a[1..].to_vec());
    }
    for t in &case.trigs {
        let fires = t.table == 0 && t.enabled && t.timing < 2 && t.ev.kind() == case.st.kind();
        let mut expect: Vec<R> = vec![];
        if fires {
            // one audit row per body statement and firing, from the images the property names
            let entries = |o: &Option<R>, n: &Option<R>, out: &mut Vec<R>| {
                for a in &t.body {
                    match a {
                        Act::Audit(uo, un) => {
                            let mut e = vec![];
                            e.extend(if *uo { o.clone().unwrap_or(vec![None; 3]) } else { vec![None; 3] });
                            e.extend(if *un { n.clone().unwrap_or(vec![None; 3]) } else { vec![None; 3] });
                            out.push(e);
                        }
                        Act::AuditX(x) => {
                            let v = match x.eval(o, n, None) {
                                Some(Val::Int(i)) => Some(i),
                                _ => None,
                            };
                            out.push(vec![None, None, None, v, None, None]);
                        }
                        _ => {}
                    }
                }
            };
            if t.row {
                for (o, n) in &affected {
                    if let (Ev::Upd(Some(cols)), Some(o), Some(n)) = (&t.ev, o, n) {
                        if !cols.iter().any(|c| *c < 3 && o[*c] != n[*c]) {
                            continue;
                        }
                    }
                    if let Some(w) = &t.when {
                        if when_holds(w, o, n) != Some(true) {
                            continue;
                        }
                    }
                    entries(o, n, &mut expect);
                }
            } else {
                entries(&None, &None, &mut expect);
            }
        }
        let mut got = by_tid.remove(&t.tid).unwrap_or_default();
        got.sort();
        expect.sort();
        if got != expect {
            bad.push(format!("audit rows of trigger {} are {:?}, the property demands {:?}", t.name(), got, expect));
        }
    }
    for (tid, rows) in by_tid {
        bad.push(format!("audit rows with unknown trigger id {}: {:?}", tid, rows));
    }
    bad
}

/// `Safe` of theorem C34_fail_rows_unchanged_partial, on the case alone
fn safe_for_rows(case: &Case) -> bool {
    let found_after: Vec<&Trig> =
        case.trigs.iter().filter(|t| t.table == 0 && t.enabled && t.timing == 1 && t.ev.kind() == case.st.kind()).collect();
    match &case.st {
        St::Ins(rows, _) => rows.len() <= 1 && found_after.iter().all(|t| t.row),
        _ => found_after.is_empty(),
    }
}

fn replay_text(case: &Case, db: &Db, r: &Run, model: &str) -> String {
    format!(
        "{}\n-- statement under test (last line above)\nreal : {} T={:?} A={:?}\nmodel: {}\nmodel request: {}\n",
        db.log.join(";\n"),
        r.out,
        r.post_t,
        r.post_a,
        model,
        model_request(case, &r.order)
    )
}

/// run one case: real code, model, oracle.  Returns (fired, failed)
fn check_case(case: &Case, id: &str, rep: &mut Report, model: &mut vharness::model::Model) {
    // S is filled in ascending row order (NULL last): the engine's SELECT * FROM S returns the
    // rows in that order while the bulk transfer copies storage order — neither is the property
    let mut case = case.clone();
    // without INSERT triggers `INSERT … SELECT * FROM S` is the bulk transfer, whose row-by-row
    // validation (a CHECK failing at row k keeps rows 1..k-1) is C11's subject, not this one's
    let no_insert_trigger = !case.trigs.iter().any(|t| t.table == 0 && t.ev == Ev::Ins);
    if let St::Ins(rows, how) = &mut case.st {
        if *how == 2 && no_insert_trigger && rows.iter().any(|r| r[OK_COL] == Some(OK_VAL)) {
            *how = 1;
        }
    }
    if let St::Ins(rows, 1..=2) = &mut case.st {
        rows.sort_by_key(|r| r.iter().map(|v| (v.is_none(), v.unwrap_or(0))).collect::<Vec<_>>());
    }
    let mut db = setup(&case);
    // the order in which a filtered SELECT returns the rows of S is not part of the property:
    // the rows to insert are taken in the order the engine's own SELECT yields them
    if let St::Ins(rows, how @ 1..=2) = &mut case.st {
        let q = if *how == 1 { "SELECT * FROM S WHERE C0 >= 0" } else { "SELECT * FROM S" };
        let keep = db.keep_log;
        db.keep_log = false;
        if let Out::Rows(rs) = db.exec(q) {
            let got: Vec<R> = rs
                .iter()
                .map(|r| r.iter().map(|v| match v { SqlValue::Integer(i) | SqlValue::Bigint(i) => Some(*i), _ => None }).collect())
                .collect();
            let (mut a, mut b) = (got.clone(), rows.clone());
            a.sort();
            b.sort();
            assert_eq!(a, b, "harness precondition: SELECT * FROM S returns the rows of S");
            *rows = got;
        }
        db.keep_log = keep;
    }
    let case = &case;
    let r = run_real(case, &mut db);
    let real = format!("(res {} (rows{}) (log{}))", r.out, r.post_t.iter().map(|x| format!(" {}", row_sx(x))).collect::<String>(), {
        let s = audit_sx(&r.post_a);
        if s.is_empty() {
            s
        } else {
            format!(" {}", s)
        }
    });
    let reply = norm_model(&model.ask(&model_request(case, &r.order)));
    let nested = case.trigs.iter().any(|t| t.body.iter().any(|a| a.nested()));
    if reply != real {
        rep.fail(FailKind::ModelDiff, None, &format!("model and code disagree on a {} with triggers", ["INSERT", "UPDATE", "DELETE"][case.st.kind() as usize]), &replay_text(case, &db, &r, &reply));
    }
    // ---- direct oracle
    let failed = !r.out.starts_with("(ok");
    if !failed && !nested {
        for b in oracle_success(case, &r) {
            rep.fail(FailKind::Oracle, None, &format!("firing schedule: {}", b.split(" are ").next().unwrap_or("").chars().take(40).collect::<String>()), &format!("{}\n{}", b, replay_text(case, &db, &r, &reply)));
        }
    }
    if failed {
        let t_changed = r.post_t != r.pre_t;
        let a_changed = !r.post_a.is_empty();
        if t_changed || a_changed {
            let sig = if nested || !t_changed {
                Some("C34/body-effects-kept")
            } else if !safe_for_rows(case) {
                Some("C34/statement-rows-kept")
            } else {
                None
            };
            rep.fail(
                FailKind::Oracle,
                sig,
                "a failing statement changed the database",
                &format!("T before {:?}\n{}", r.pre_t, replay_text(case, &db, &r, &reply)),
            );
            rep.count(if t_changed { "failed_and_T_changed" } else { "failed_and_only_A_changed" });
        } else {
            rep.count("failed_and_unchanged");
        }
    }
    // ---- bookkeeping
    let fired = !r.post_a.is_empty();
    rep.case(&format!("{}|{}", id, model_request(case, &r.order)), fired || failed);
    rep.count(&format!("stmt_{}", ["insert", "update", "delete"][case.st.kind() as usize]));
    rep.count(&format!("outcome_{}", r.out.replace(['(', ')'], "").split(' ').take(2).collect::<Vec<_>>().join("_").split(':').next().unwrap_or("")));
    rep.count(&format!("triggers_{}", case.trigs.len()));
    rep.add("audit_rows", r.post_a.len() as u64);
    let aff = case.st.affected(&r.pre_t).len();
    rep.count(&format!("affected_rows_{}", if aff >= 4 { "4+".to_string() } else { aff.to_string() }));
    for t in &case.trigs {
        rep.count(&format!(
            "trig_{}_{}_{}",
            ["before", "after", "insteadof"][t.timing as usize],
            match &t.ev {
                Ev::Ins => "insert",
                Ev::Del => "delete",
                Ev::Upd(None) => "update",
                Ev::Upd(Some(_)) => "updateof",
            },
            if t.row { "row" } else { "stmt" }
        ));
        if t.when.is_some() {
            rep.count("trig_with_when");
        }
        if !t.enabled {
            rep.count("trig_disabled");
        }
        if t.body.iter().any(|a| a.nested()) {
            rep.count("trig_with_nested_dml");
        }
    }
    if nested {
        rep.count("cases_with_nested_dml");
    }
    rep.sample(serde_json::json!({"id": id, "triggers": case.trigs.iter().map(|t| t.describe()).collect::<Vec<_>>(), "rows": format!("{:?}", case.rows), "stmt": case.st.sql(), "real": real}));
}

// ------------------------------------------------------------------------------------------
// deterministic probes

fn tr(tid: u64, timing: u8, ev: Ev, row: bool) -> Trig {
    let (uo, un) = match (&ev, row) {
        (_, false) => (false, false),
        (Ev::Ins, _) => (false, true),
        (Ev::Del, _) => (true, false),
        (Ev::Upd(_), _) => (true, true),
    };
    Trig { tid, table: 0, timing, ev, row, enabled: true, when: None, body: vec![Act::Audit(uo, un)] }
}
fn r3(a: i64, b: i64, c: i64) -> R {
    vec![Some(a), Some(b), Some(c)]
}

fn probes() -> Vec<(String, Case)> {
    let base = vec![r3(1, 10, 0), r3(2, 20, 1), r3(3, 30, 2), r3(4, 40, 3)];
    let mut v: Vec<(String, Case)> = vec![];
    let mut add = |name: &str, rows: &Vec<R>, trigs: Vec<Trig>, st: St| v.push((name.to_string(), Case { rows: rows.clone(), trigs, st }));
    let all_stmts = |k: u8| -> Vec<St> {
        match k {
            0 => vec![St::Ins(vec![r3(5, 50, 0)], 0), St::Ins(vec![r3(5, 50, 0), r3(6, 60, 1), r3(7, 70, 2)], 0), St::Ins(vec![], 1), St::Ins(vec![r3(8, 80, 0), r3(9, 90, 1)], 1), St::Ins(vec![r3(8, 80, 0), r3(9, 90, 1)], 2)],
            1 => vec![
                St::Upd(Sel::Cmp(0, Cmp::Eq, 2), vec![Asg::Add(1, 1)]),
                St::Upd(Sel::All, vec![Asg::Add(1, 1)]),
                St::Upd(Sel::Cmp(0, Cmp::Gt, 99), vec![Asg::Set(1, 5)]),
                St::Upd(Sel::Cmp(0, Cmp::Ge, 2), vec![Asg::Set(2, 1), Asg::Add(1, 0)]),
            ],
            _ => vec![St::Del(Some(Sel::Cmp(0, Cmp::Eq, 3))), St::Del(Some(Sel::Cmp(0, Cmp::Le, 3))), St::Del(Some(Sel::Cmp(0, Cmp::Gt, 99))), St::Del(None)],
        }
    };
    let evs = [Ev::Ins, Ev::Upd(None), Ev::Del];
    // every timing × event × granularity against single-row, multi-row and zero-row statements
    for k in 0..3u8 {
        for (si, st) in all_stmts(k).into_iter().enumerate() {
            let trigs = vec![
                tr(1, 0, evs[k as usize].clone(), true),
                tr(2, 1, evs[k as usize].clone(), true),
                tr(3, 0, evs[k as usize].clone(), false),
                tr(4, 1, evs[k as usize].clone(), false),
                tr(5, 2, evs[k as usize].clone(), true),
                tr(6, 1, evs[(k as usize + 1) % 3].clone(), true),
                Trig { table: 1, ..tr(95, 1, evs[k as usize].clone(), true) },
                Trig { enabled: false, ..tr(7, 1, evs[k as usize].clone(), true) },
            ];
            add(&format!("grid-{}-{}", k, si), &base, trigs, st.clone());
            // one trigger at a time
            for (ti, t) in [tr(1, 0, evs[k as usize].clone(), true), tr(2, 1, evs[k as usize].clone(), true), tr(3, 0, evs[k as usize].clone(), false), tr(4, 1, evs[k as usize].clone(), false)].into_iter().enumerate() {
                add(&format!("single-{}-{}-{}", k, si, ti), &base, vec![t], st.clone());
            }
            // only a disabled trigger / only a trigger of another event (fast paths must still behave)
            add(&format!("disabled-only-{}-{}", k, si), &base, vec![Trig { enabled: false, ..tr(7, 1, evs[k as usize].clone(), true) }], st.clone());
            add(&format!("no-trigger-{}-{}", k, si), &base, vec![], st);
        }
    }
    // UPDATE OF: column changed / not changed / not assigned / unknown column / value unchanged
    for (i, cols) in [vec![1], vec![2], vec![0, 1], vec![2, 0], vec![5], vec![5, 1], vec![]].into_iter().enumerate() {
        for (j, st) in [
            St::Upd(Sel::All, vec![Asg::Add(1, 1)]),
            St::Upd(Sel::All, vec![Asg::Set(2, 1)]),
            St::Upd(Sel::Cmp(0, Cmp::Le, 2), vec![Asg::Add(1, 0), Asg::Set(2, 9)]),
            St::Upd(Sel::All, vec![Asg::Null(1)]),
        ]
        .into_iter()
        .enumerate()
        {
            let mut rows = base.clone();
            rows.push(vec![Some(5), None, Some(1)]);
            add(
                &format!("update-of-{}-{}", i, j),
                &rows,
                vec![tr(1, 0, Ev::Upd(Some(cols.clone())), true), tr(2, 1, Ev::Upd(Some(cols.clone())), true), tr(3, 1, Ev::Upd(Some(cols.clone())), false), tr(4, 1, Ev::Upd(None), true)],
                st,
            );
        }
    }
    // WHEN: base / OLD / NEW, NULL operand, unavailable image, non-boolean, statement-level WHEN
    let whens = [
        W::Cmp(Src::Base, 1, Cmp::Gt, 20),
        W::Cmp(Src::New, 1, Cmp::Ge, 21),
        W::Cmp(Src::Old, 1, Cmp::Lt, 30),
        W::Cmp(Src::Base, 1, Cmp::Ne, 20),
        W::Cmp(Src::Base, 2, Cmp::Eq, 1),
        W::Raw(Src::Base, 1),
    ];
    for (i, w) in whens.iter().enumerate() {
        for k in 0..3u8 {
            let st = all_stmts(k).remove(1);
            let mut rows = base.clone();
            rows.push(vec![Some(2), None, None]);
            for timing in 0..2u8 {
                add(&format!("when-{}-{}-{}", i, k, timing), &rows, vec![Trig { when: Some(w.clone()), ..tr(1, timing, evs[k as usize].clone(), true) }, tr(2, 1, evs[k as usize].clone(), true)], st.clone());
            }
            add(&format!("when-stmt-{}-{}", i, k), &rows, vec![Trig { when: Some(w.clone()), ..tr(1, 0, evs[k as usize].clone(), false) }], st.clone());
        }
    }
    // failing bodies at every position: poison value 66 in C1 of row j; always-failing trigger id
    for k in 0..3u8 {
        for j in 0..3usize {
            for timing in 0..2u8 {
                let mut rows = base.clone();
                let st = match k {
                    0 => {
                        let mut ins = vec![r3(5, 50, 0), r3(6, 60, 1), r3(7, 70, 2)];
                        ins[j][1] = Some(66);
                        St::Ins(ins, 0)
                    }
                    1 => {
                        rows[j][1] = Some(66);
                        St::Upd(Sel::Cmp(0, Cmp::Le, 3), vec![Asg::Add(2, 1)])
                    }
                    _ => {
                        rows[j][1] = Some(66);
                        St::Del(Some(Sel::Cmp(0, Cmp::Le, 3)))
                    }
                };
                add(&format!("fail-row-{}-{}-{}", k, j, timing), &rows, vec![tr(1, timing, evs[k as usize].clone(), true)], st.clone());
                add(&format!("fail-row-two-{}-{}-{}", k, j, timing), &rows, vec![tr(1, timing, evs[k as usize].clone(), true), tr(2, 1 - timing, evs[k as usize].clone(), true)], st);
            }
        }
        for timing in 0..2u8 {
            for row in [false, true] {
                for st in all_stmts(k).into_iter().take(3) {
                    add(&format!("fail-always-{}-{}-{}", k, timing, row), &base, vec![tr(91, timing, evs[k as usize].clone(), row)], st);
                }
            }
        }
        // the statement's own CHECK fails (C2 = 77) with every kind of trigger present
        let st = match k {
            0 => St::Ins(vec![r3(5, 50, 0), r3(6, 60, 77)], 0),
            1 => St::Upd(Sel::Cmp(0, Cmp::Ge, 3), vec![Asg::Set(2, 77)]),
            _ => continue,
        };
        add(&format!("own-check-{}", k), &base, vec![tr(1, 0, evs[k as usize].clone(), true), tr(2, 1, evs[k as usize].clone(), true), tr(3, 0, evs[k as usize].clone(), false), tr(4, 1, evs[k as usize].clone(), false)], st);
    }
    // wrong pseudo-variable for the event
    add("pseudo-old-in-insert", &base, vec![Trig { body: vec![Act::Audit(true, true)], ..tr(1, 1, Ev::Ins, true) }], St::Ins(vec![r3(5, 50, 0)], 0));
    add("pseudo-new-in-delete", &base, vec![Trig { body: vec![Act::Audit(true, true)], ..tr(1, 0, Ev::Del, true) }], St::Del(Some(Sel::Cmp(0, Cmp::Eq, 1))));
    add("pseudo-in-stmt-trigger", &base, vec![Trig { body: vec![Act::Audit(false, true)], ..tr(1, 0, Ev::Upd(None), false) }], St::Upd(Sel::All, vec![Asg::Add(1, 1)]));
    // nested firing: runaway recursion (limit), bounded chains around the limit, nested statements
    add("recursion-after-insert", &base, vec![Trig { body: vec![Act::Audit(false, true), Act::Reinsert], ..tr(1, 1, Ev::Ins, true) }], St::Ins(vec![r3(5, 50, 0)], 0));
    add("recursion-before-insert", &base, vec![Trig { body: vec![Act::Reinsert, Act::Audit(false, true)], ..tr(1, 0, Ev::Ins, true) }], St::Ins(vec![r3(5, 50, 0)], 0));
    add("recursion-insrow", &vec![], vec![Trig { body: vec![Act::InsRow(r3(9, 9, 0))], ..tr(1, 1, Ev::Ins, true) }, tr(2, 1, Ev::Ins, true)], St::Ins(vec![r3(5, 50, 0), r3(6, 60, 0)], 0));
    for depth in [0i64, 1, 2, 6, 7, 8, 13, 14, 15, 16, 17] {
        // AFTER UPDATE trigger decrements C2 of its row until 0: chain of `depth` nested updates
        for timing in 0..2u8 {
            add(
                &format!("chain-{}-{}", depth, timing),
                &vec![r3(1, 10, depth), r3(2, 20, 0)],
                vec![Trig { body: vec![Act::Audit(true, true), Act::Decr(Src::New, 2)], ..tr(1, timing, Ev::Upd(None), true) }],
                St::Upd(Sel::Cmp(0, Cmp::Eq, 1), vec![Asg::Add(1, 1)]),
            );
        }
    }
    // OLD.c and NEW.c of the SAME column inside ONE expression: WHEN, VALUES item, body UPDATE / DELETE
    {
        let o = |c: usize| TE::Col(Src::Old, c);
        let n = |c: usize| TE::Col(Src::New, c);
        let b = |c: usize| TE::Col(Src::Base, c);
        let l = |i: i64| TE::Lit(Some(i));
        let mut rows = base.clone();
        rows.push(vec![Some(5), None, Some(1)]);
        rows.push(vec![Some(6), Some(7), None]);
        rows.push(r3(9, 0, 0)); // marker row for the body DELETE
        let stmts = vec![
            St::Upd(Sel::Cmp(0, Cmp::Le, 6), vec![Asg::Add(1, 1)]),                 // c1 changes
            St::Upd(Sel::Cmp(0, Cmp::Le, 6), vec![Asg::Add(1, 0)]),                 // assigned, unchanged
            St::Upd(Sel::Cmp(0, Cmp::Le, 6), vec![Asg::Add(2, 1)]),                 // another column changes
            St::Upd(Sel::Cmp(0, Cmp::Le, 6), vec![Asg::Set(1, 20)]),                // some change, one not, NULL -> value
            St::Upd(Sel::Cmp(0, Cmp::Le, 6), vec![Asg::Null(1)]),                   // value -> NULL
            St::Upd(Sel::Cmp(0, Cmp::Le, 6), vec![Asg::Add(1, 2), Asg::Set(2, 1)]), // several columns
            St::Upd(Sel::Cmp(0, Cmp::Gt, 50), vec![Asg::Add(1, 1)]),                // zero rows
        ];
        let whens = vec![
            TE::bin("ne", o(1), n(1)),
            TE::bin("ne", n(1), o(1)),
            TE::bin("lt", o(1), n(1)),
            TE::bin("gt", TE::bin("sub", n(1), o(1)), l(0)),
            TE::bin("and", TE::bin("ne", o(1), n(1)), TE::bin("eq", o(2), n(2))),
            TE::bin("or", TE::bin("ne", o(2), n(2)), TE::bin("ne", o(1), n(1))),
            TE::bin("ne", TE::Coal(Box::new(o(1)), Box::new(l(0))), TE::Coal(Box::new(n(1)), Box::new(l(0)))),
            TE::bin("eq", TE::Ite(Box::new(TE::bin("lt", o(1), n(1))), Box::new(l(1)), Box::new(l(0))), l(1)),
            TE::bin("ne", b(1), o(1)),
        ];
        let vals = vec![
            TE::bin("sub", n(1), o(1)),
            TE::bin("sub", o(1), n(1)),
            TE::bin("add", o(1), n(1)),
            TE::Ite(Box::new(TE::bin("lt", o(1), n(1))), Box::new(n(1)), Box::new(o(1))),
            TE::Ite(Box::new(TE::bin("ne", o(1), n(1))), Box::new(l(1)), Box::new(l(0))),
            TE::Coal(Box::new(o(1)), Box::new(n(1))),
            TE::Coal(Box::new(n(1)), Box::new(o(1))),
            TE::bin("add", TE::bin("sub", n(1), o(1)), TE::bin("sub", n(2), o(2))),
        ];
        for (si, st) in stmts.iter().enumerate() {
            for timing in 0..2u8 {
                for (wi, w) in whens.iter().enumerate() {
                    add(&format!("oldnew-when-{}-{}-{}", si, timing, wi), &rows, vec![Trig { when: Some(W::Expr(w.clone())), ..tr(1, timing, Ev::Upd(None), true) }], st.clone());
                }
                for (vi, v) in vals.iter().enumerate() {
                    add(&format!("oldnew-value-{}-{}-{}", si, timing, vi), &rows, vec![Trig { body: vec![Act::AuditX(v.clone()), Act::Audit(true, true)], ..tr(1, timing, Ev::Upd(None), true) }], st.clone());
                }
                // body UPDATE: SET and WHERE mention OLD.c1 and NEW.c1 (the nested UPDATE leaves c1 alone, so it does not recurse further)
                add(
                    &format!("oldnew-body-update-{}-{}", si, timing),
                    &rows,
                    vec![Trig {
                        body: vec![Act::UpdX(2, TE::bin("sub", n(1), o(1)), TE::bin("and", TE::bin("eq", b(0), l(9)), TE::bin("ne", o(1), n(1))))],
                        ..tr(1, timing, Ev::Upd(None), true)
                    }],
                    st.clone(),
                );
                // body DELETE of the marker row when c1 changed
                add(
                    &format!("oldnew-body-delete-{}-{}", si, timing),
                    &rows,
                    vec![Trig { body: vec![Act::DelX(TE::bin("and", TE::bin("eq", b(0), l(9)), TE::bin("lt", o(1), n(1)))), Act::Audit(true, true)], ..tr(1, timing, Ev::Upd(None), true) }, tr(2, 1, Ev::Del, true)],
                    st.clone(),
                );
            }
        }
    }
    add("nested-delete-in-update", &base, vec![Trig { body: vec![Act::DelKey(Src::Old)], ..tr(1, 0, Ev::Upd(None), true) }, tr(2, 1, Ev::Del, true), tr(3, 1, Ev::Upd(None), true)], St::Upd(Sel::Cmp(0, Cmp::Le, 2), vec![Asg::Add(1, 1)]));
    add("nested-insert-in-delete", &base, vec![Trig { body: vec![Act::Audit(true, false), Act::InsRow(r3(9, 9, 0))], ..tr(1, 0, Ev::Del, true) }, tr(2, 1, Ev::Ins, true), tr(3, 0, Ev::Ins, false)], St::Del(Some(Sel::Cmp(0, Cmp::Le, 2))));
    add("nested-insert-in-stmt-trigger", &base, vec![Trig { body: vec![Act::InsRow(r3(9, 9, 0))], ..tr(1, 0, Ev::Del, false) }, tr(2, 1, Ev::Ins, true), tr(3, 1, Ev::Del, true)], St::Del(Some(Sel::Cmp(0, Cmp::Le, 2))));
    add("nested-insert-in-before-stmt-update", &base, vec![Trig { body: vec![Act::InsRow(r3(1, 9, 0))], ..tr(1, 0, Ev::Upd(None), false) }, tr(3, 1, Ev::Upd(None), true)], St::Upd(Sel::Cmp(0, Cmp::Eq, 1), vec![Asg::Add(1, 1)]));
    v
}

// ------------------------------------------------------------------------------------------
// generator

fn gen_val(rng: &mut Rng, col: usize) -> V {
    match col {
        0 => Some(rng.range(1, 6)),
        1 => {
            if rng.chance(1, 8) {
                None
            } else if rng.chance(1, 9) {
                Some(BAD_VAL)
            } else {
                Some(rng.range(0, 9))
            }
        }
        _ => {
            if rng.chance(1, 8) {
                None
            } else {
                Some(rng.range(0, 3))
            }
        }
    }
}
fn gen_row(rng: &mut Rng) -> R {
    (0..3).map(|c| gen_val(rng, c)).collect()
}
fn gen_cmp(rng: &mut Rng) -> Cmp {
    *rng.pick(&[Cmp::Eq, Cmp::Ne, Cmp::Lt, Cmp::Le, Cmp::Gt, Cmp::Ge])
}
fn gen_sel(rng: &mut Rng) -> Sel {
    if rng.chance(1, 4) {
        Sel::All
    } else if rng.chance(1, 6) {
        Sel::Cmp(0, Cmp::Gt, 50) // zero rows
    } else {
        let c = rng.below(3) as usize;
        Sel::Cmp(c, gen_cmp(rng), if c == 0 { rng.range(1, 6) } else { rng.range(0, 5) })
    }
}

fn gen_int_te(rng: &mut Rng, c: usize, depth: u32) -> TE {
    let img = |rng: &mut Rng, c: usize| TE::Col(if rng.chance(1, 2) { Src::Old } else { Src::New }, c);
    let c2 = if rng.chance(3, 4) { c } else { 1 + rng.below(2) as usize };
    if depth == 0 {
        return if rng.chance(1, 5) { TE::Lit(Some(rng.range(0, 5))) } else { img(rng, c2) };
    }
    match rng.below(6) {
        0 => TE::bin("sub", TE::Col(Src::New, c), TE::Col(Src::Old, c)),
        1 => TE::bin(if rng.chance(1, 2) { "add" } else { "sub" }, gen_int_te(rng, c, depth - 1), gen_int_te(rng, c, depth - 1)),
        2 => TE::Ite(Box::new(gen_bool_te(rng, c, depth - 1)), Box::new(gen_int_te(rng, c, depth - 1)), Box::new(gen_int_te(rng, c, depth - 1))),
        3 => TE::Coal(Box::new(img(rng, c)), Box::new(img(rng, c2))),
        4 => TE::Coal(Box::new(TE::Col(Src::Old, c)), Box::new(TE::Col(Src::New, c))),
        _ => img(rng, c2),
    }
}
fn gen_bool_te(rng: &mut Rng, c: usize, depth: u32) -> TE {
    let ops = ["eq", "ne", "lt", "le", "gt", "ge"];
    if depth > 0 && rng.chance(1, 4) {
        let other = 1 + rng.below(2) as usize;
        let op = if rng.chance(1, 2) { "and" } else { "or" };
        let a = gen_bool_te(rng, c, depth - 1);
        let b = gen_bool_te(rng, other, depth - 1);
        return TE::bin(op, a, b);
    }
    if rng.chance(1, 2) {
        let (a, b) = if rng.chance(1, 2) { (Src::Old, Src::New) } else { (Src::New, Src::Old) };
        TE::bin(*rng.pick(&ops), TE::Col(a, c), TE::Col(b, c))
    } else {
        TE::bin(*rng.pick(&ops), gen_int_te(rng, c, depth.saturating_sub(1)), gen_int_te(rng, c, depth.saturating_sub(1)))
    }
}

fn gen_case(rng: &mut Rng) -> Case {
    let rows: Vec<R> = (0..rng.below(6)).map(|_| gen_row(rng)).collect();
    let kind = rng.below(3) as u8;
    let st = match kind {
        0 => {
            let how = if rng.chance(1, 5) { 1 + rng.below(2) as u8 } else { 0 };
            let n = if how == 1 && rng.chance(1, 2) { 0 } else { 1 + rng.below(3) };
            let mut ins: Vec<R> = (0..n).map(|_| gen_row(rng)).collect();
            if rng.chance(1, 12) && !ins.is_empty() {
                let i = rng.below(ins.len() as u64) as usize;
                ins[i][OK_COL] = Some(OK_VAL);
            }
            St::Ins(ins, how)
        }
        1 => {
            let mut asg = vec![];
            let mut cols = vec![0usize, 1, 2];
            rng.shuffle(&mut cols);
            for c in cols.into_iter().take(1 + rng.below(2) as usize) {
                asg.push(match rng.below(6) {
                    0 => Asg::Null(c),
                    1 | 2 => Asg::Set(c, if c == OK_COL && rng.chance(1, 6) { OK_VAL } else if c == BAD_COL && rng.chance(1, 4) { BAD_VAL } else { rng.range(0, 6) }),
                    _ => Asg::Add(c, rng.range(0, 2)),
                });
            }
            St::Upd(gen_sel(rng), asg)
        }
        _ => {
            if rng.chance(1, 5) {
                St::Del(None)
            } else {
                St::Del(Some(gen_sel(rng)))
            }
        }
    };
    let evs = [Ev::Ins, Ev::Upd(None), Ev::Del];
    let mut trigs = vec![];
    let n = rng.below(5);
    let mut nested_used = false;
    for i in 0..n {
        let mut ev = if rng.chance(3, 4) { evs[kind as usize].clone() } else { rng.pick(&evs).clone() };
        if matches!(ev, Ev::Upd(_)) && rng.chance(2, 5) {
            let mut cols: Vec<usize> = vec![];
            for c in [0usize, 1, 2, 5] {
                if rng.chance(1, 3) {
                    cols.push(c);
                }
            }
            rng.shuffle(&mut cols);
            ev = Ev::Upd(Some(cols));
        }
        let row = rng.chance(7, 10);
        let timing = if rng.chance(1, 20) { 2 } else { rng.below(2) as u8 };
        let mut t = tr(if rng.chance(1, 10) { 90 + i } else { 1 + i }, timing, ev.clone(), row);
        t.enabled = !rng.chance(1, 10);
        let (has_old, has_new) = (row && ev.kind() >= 1, row && ev.kind() <= 1);
        if rng.chance(2, 5) {
            let src = *rng.pick(&[Src::Base, Src::Old, Src::New]);
            t.when = Some(if rng.chance(1, 12) { W::Raw(src, rng.below(3) as usize) } else { W::Cmp(src, rng.below(3) as usize, gen_cmp(rng), rng.range(0, 6)) });
        }
        if rng.chance(1, 12) {
            t.body = vec![Act::Audit(rng.chance(1, 2), rng.chance(1, 2))];
        }
        // UPDATE row triggers: OLD.c and NEW.c of one column inside one expression
        if has_old && has_new {
            let c = 1 + rng.below(2) as usize;
            if rng.chance(1, 3) {
                t.when = Some(W::Expr(gen_bool_te(rng, c, 2)));
            }
            if rng.chance(1, 3) {
                let x = Act::AuditX(gen_int_te(rng, c, 2));
                if rng.chance(1, 2) {
                    t.body.push(x);
                } else {
                    t.body.insert(0, x);
                }
            }
            if !nested_used && rng.chance(1, 10) {
                nested_used = true;
                let guard = TE::bin(*rng.pick(&["ne", "lt", "gt"]), TE::Col(Src::Old, c), TE::Col(Src::New, c));
                let key = TE::bin("eq", TE::Col(Src::Base, 0), if rng.chance(1, 2) { TE::Col(Src::Old, 0) } else { TE::Lit(Some(rng.range(1, 6))) });
                let w = TE::bin("and", key, guard);
                t.body.push(if rng.chance(1, 2) { Act::UpdX(3 - c, gen_int_te(rng, c, 1), w) } else { Act::DelX(w) });
            }
        }
        if !nested_used && rng.chance(1, 6) {
            nested_used = true;
            let img = if has_new { Src::New } else { Src::Old };
            let act = match rng.below(4) {
                0 if has_new => Act::Reinsert,
                1 if has_old || has_new => Act::Decr(img, 2),
                2 if (has_old || has_new) && ev.kind() != 2 => Act::DelKey(img),
                _ => Act::InsRow(gen_row(rng)),
            };
            if rng.chance(1, 2) {
                t.body.push(act);
            } else {
                t.body.insert(0, act);
            }
        }
        trigs.push(t);
    }
    if rng.chance(1, 4) {
        trigs.push(Trig { table: 1, ..tr(95, rng.below(2) as u8, evs[kind as usize].clone(), rng.chance(1, 2)) });
    }
    Case { rows, trigs, st }
}

fn main() {
    let args = Args::parse("C34");
    engine::silence_panics();
    let mut rep = Report::new(&args, "a trigger body ran (the audit table changed) or the statement failed");
    let mut model = args.model();
    for (name, case) in probes() {
        check_case(&case, &format!("probe:{}", name), &mut rep, &mut model);
        rep.count("deterministic_probes");
    }
    // seeds k and k+1 of the shared SplitMix64 are the same stream shifted by one draw: spread them
    let mut rng = Rng::new(args.seed.wrapping_mul(6364136223846793005).wrapping_add(1442695040888963407) >> 5);
    let n = args.n(30000, 1500000);
    for i in 0..n {
        let case = gen_case(&mut rng);
        check_case(&case, &format!("gen:{}", i), &mut rep, &mut model);
    }
    rep.assumptions.push("triggers are registered through TriggerExecutor::create_trigger with TriggerAction::RawSql (CREATE TRIGGER given as SQL text stores an unparsable body)".into());
    rep.assumptions.push("the iteration order of the catalog's trigger HashMap is read from the catalog and given to the model; the theorems hold for every order".into());
    rep.assumptions.push("one table with triggers, INTEGER columns, no PRIMARY KEY / FOREIGN KEY; REPLACE and ON DUPLICATE KEY UPDATE are not exercised".into());
    std::process::exit(rep.finish());
}
