import VibeProof.Model.TextCodec
open VibeProof VibeProof.Proto VibeProof.Text VibeProof.Text.Bind VibeProof.TextCodec

def decParams : Sx → Option (Option (List PVal))
  | .atom "none" => some none
  | sx => (decPVals sx).map some

def encBErr : BErr → Sx
  | .paramCount => .list [.atom "err", .atom "count"]
  | .parse => .list [.atom "err", .atom "parse"]

/-- one call of a session: `(call SQL PARAMS CLEARS)`; CLEARS = 1 when the statement is one of the
schema-changing kinds after whose successful execution `execute` clears the statement cache -/
def runSession (parse : Str → Option Str) (boundKey : Bool) :
    Cursor Str → List Sx → List Sx → Option (List Sx)
  | _, [], acc => some acc.reverse
  | cur, .list [.atom "call", sql, ps, clears] :: rest, acc => do
    let sql ← decChars sql
    let ps ← decParams ps
    let cl ← decBool clears
    let r := if boundKey then prepareBoundKey parse cur sql ps else prepare parse cur sql ps
    match r with
    | .ok (stmt, cur') =>
      runSession parse boundKey (if cl then clear cur' else cur') rest (.list [.atom "ran", sxChars stmt] :: acc)
    | .error e => runSession parse boundKey cur rest (encBErr e :: acc)
  | _, _, _ => none

/-- `(substitute SQL VALS)`; `(bind SQL PARAMS)`; `(scan T)`; `(scanq T)`; `(lexstr T)`;
`(count SQL)` → number of placeholders; `(bindint TY N)` → `(ok N')` / `(err range)`; `(session KEY (bad T…) (call …)…)` with KEY = unbound | bound -/
def handle : List Sx → Sx
  | [.atom "substitute", sql, vs] =>
    match decChars sql, decPVals vs with
    | some s, some v => sxChars (substitute s v)
    | _, _ => .atom "bad-request"
  | [.atom "bind", sql, ps] =>
    match decChars sql, decParams ps with
    | some s, some p =>
      match bind s p with
      | .ok t => .list [.atom "ok", sxChars t]
      | .error e => encBErr e
    | _, _ => .atom "bad-request"
  | [.atom "scan", t] =>
    match decChars t with
    | some cs => encScan (scan cs)
    | none => .atom "bad-request"
  | [.atom "scanq", t] =>
    match decChars t with
    | some cs => encScan (scanQ cs)
    | none => .atom "bad-request"
  | [.atom "filled", sql, vs] =>
    match decChars sql, decPVals vs with
    | some s, some v => encScan ((scanQ s).map (fill · v))
    | _, _ => .atom "bad-request"
  | [.atom "bindint", .atom ty, n] =>
    let t : Option IntTy := match ty with
      | "smallint" => some .smallint | "integer" => some .integer | "bigint" => some .bigint | _ => none
    match t, n.int? with
    | some t, some n =>
      match bindReadInt t n with
      | .ok v => .list [.atom "ok", sxInt v]
      | .error _ => .list [.atom "err", .atom "range"]
    | _, _ => .atom "bad-request"
  | [.atom "count", sql] =>
    match decChars sql with
    | some s => sxNat (countQ s)
    | none => .atom "bad-request"
  | [.atom "lexstr", t] =>
    match decChars t with
    | some cs =>
      match lexString cs with
      | .ok (s, r) => .list [.atom "ok", sxChars s, sxChars r]
      | .error e => encLexErr e
    | none => .atom "bad-request"
  | .atom "session" :: .atom key :: .list (.atom "bad" :: bad) :: calls =>
    match bad.mapM decChars with
    | some badTexts =>
      let parse : Str → Option Str := fun t => if badTexts.contains t then none else some t
      match runSession parse (key == "bound") ⟨[]⟩ calls [] with
      | some rs => .list (.atom "results" :: rs)
      | none => .atom "bad-request"
    | none => .atom "bad-request"
  | _ => .atom "bad-request"

def main : IO Unit := runDriver handle
