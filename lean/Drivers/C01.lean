import VibeProof.Model.SqlDriver
open VibeProof VibeProof.Proto

def main : IO Unit := runDriver VibeProof.SqlDriver.handleQuery
