# C23: the keyword table of the lexer (crates/vibesql-parser/src/lexer/keywords.rs::map_keyword)
# and the parser's nesting limit, re-read from the source on every run.
import re


def extract(read):
    src = read("crates/vibesql-parser/src/lexer/keywords.rs")
    pairs = re.findall(r'"([A-Z_0-9]+)"\s*=>\s*Token::Keyword\(Keyword::(\w+)\)', src)
    out = []
    if not pairs or "fn map_keyword" not in src:
        out.append("-- lexerKeywords: NOT FOUND in source (dependent theorems will not build)\n")
    else:
        body = ", ".join('("%s", "%s")' % p for p in pairs)
        out.append("/-- lexer/keywords.rs `map_keyword`: upper-case text -> `Keyword` variant -/\n"
                   "def lexerKeywords : List (String × String) := [%s]\n" % body)
    psrc = read("crates/vibesql-parser/src/parser/mod.rs")
    m = re.search(r"pub const MAX_NESTING_DEPTH\s*:\s*usize\s*=\s*([0-9_]+)\s*;", psrc)
    if m:
        out.append("/-- parser/mod.rs `MAX_NESTING_DEPTH` -/\ndef parserMaxNestingDepth : Nat := %d\n" % int(m.group(1).replace("_", "")))
    else:
        out.append("-- parserMaxNestingDepth: NOT FOUND in source (dependent theorems will not build)\n")
    return "\n".join(out)


# ---- parser call graph: every cycle must pass a function that calls the depth guard ------------
import os as _os


def _strip(src):
    src = re.sub(r"//[^\n]*", "", src)
    src = re.sub(r'"(?:[^"\\]|\\.)*"', '""', src)
    i = src.find("#[cfg(test)]")
    return src if i < 0 else src[:i]


def _functions(read, rels):
    """(key, body) for every fn of the parser sources; key = 'm:name' for methods (first parameter
    is self), 'f:name' for free functions"""
    fn_re = re.compile(r"^\s*(?:pub(?:\([^)]*\))?\s+)?fn\s+(\w+)\s*(?:<[^>]*>)?\s*\(([^)]*)", re.M)
    out = {}
    for rel in rels:
        src = _strip(read(rel))
        for m in fn_re.finditer(src):
            j = src.find("{", m.end())
            semi = src.find(";", m.end())
            if j < 0 or (0 <= semi < j):
                continue
            d, k = 0, j
            while k < len(src):
                if src[k] == "{":
                    d += 1
                elif src[k] == "}":
                    d -= 1
                    if d == 0:
                        break
                k += 1
            kind = "m" if re.search(r"\bself\b", m.group(2)) else "f"
            out.setdefault("%s:%s" % (kind, m.group(1)), []).append(src[j + 1:k])
    return out


def _call_graph(read):
    base = "crates/vibesql-parser/src/parser"
    repo = _os.environ.get("VERIF_REPO", "/repo")
    rels = []
    for dp, _dn, fns in _os.walk(_os.path.join(repo, base)):
        for f in sorted(fns):
            if f.endswith(".rs"):
                rels.append(_os.path.relpath(_os.path.join(dp, f), repo))
    rels.sort()
    funcs = _functions(read, rels)
    graph, guarded = {}, set()
    for key, bodies in funcs.items():
        cal = set()
        for b in bodies:
            # method calls: x.name(   and   Self::name / Parser::name (call or fn item)
            for m in re.finditer(r"\.\s*(\w+)\s*(?:::<[^>]*>)?\s*\(", b):
                if "m:" + m.group(1) in funcs:
                    cal.add("m:" + m.group(1))
            for m in re.finditer(r"\b(?:Self|Parser)::(\w+)\b", b):
                if "m:" + m.group(1) in funcs:
                    cal.add("m:" + m.group(1))
            # free function calls: name(   or   path::name(
            for m in re.finditer(r"(?<![\w.])(?:\w+::)*(\w+)\s*(?:::<[^>]*>)?\s*\(", b):
                pre = b[max(0, m.start() - 6):m.start(1)]
                if pre.endswith("Self::") or pre.endswith("arser::"):
                    continue
                if "f:" + m.group(1) in funcs:
                    cal.add("f:" + m.group(1))
            if "enter_nesting" in b and key != "m:enter_nesting":
                guarded.add(key)
        graph[key] = cal
    return graph, guarded


def _topo(graph, guarded):
    """callees-first order of the unguarded functions; functions on an unguarded cycle are left
    over and appended at the end (the Lean check then fails, as it must)"""
    sub = {k: sorted(c for c in v if c not in guarded) for k, v in graph.items() if k not in guarded}
    order, placed = [], set()
    progress = True
    while progress:
        progress = False
        for k in sorted(sub):
            if k not in placed and all(c in placed for c in sub[k]):
                order.append(k)
                placed.add(k)
                progress = True
    stuck = [k for k in sorted(sub) if k not in placed]
    return order + stuck, sub, stuck


_extract_tables = extract


def extract(read):  # noqa: F811  (wraps the table extractor above)
    text = _extract_tables(read)
    graph, guarded = _call_graph(read)
    if not graph or not guarded:
        return text + "\n-- parserUnguardedCalls: NOT FOUND in source (dependent theorems will not build)\n"
    order, sub, stuck = _topo(graph, guarded)
    pos = {k: i for i, k in enumerate(order)}
    rows = ", ".join('("%s", [%s])' % (k.split(":", 1)[1] + ("" if k[0] == "m" else " (fn)"),
                                     ", ".join(str(pos[c]) for c in sub[k])) for k in order)
    text += ("\n/-- parser/**/*.rs: every function that does NOT call `enter_nesting`, in callees-first order, with the\n"
             "    positions (in this list) of the unguarded parser functions it calls. %d functions, %d guarded ones\n"
             "    left out%s. -/\n"
             "def parserUnguardedCalls : List (String × List Nat) := [%s]\n"
             % (len(graph), len(guarded), ("; ON AN UNGUARDED CYCLE: " + " ".join(stuck)) if stuck else "", rows))
    text += ("\n/-- the parser functions that call `enter_nesting` -/\n"
             "def parserGuardedFns : List String := [%s]\n" % ", ".join('"%s"' % g.split(":", 1)[1] for g in sorted(guarded)))
    return text


# ---- tree-building loops: every link of a left-deep chain must be counted -------------------------
def _block_end(src, j):
    d, k = 0, j
    while k < len(src):
        if src[k] == "{":
            d += 1
        elif src[k] == "}":
            d -= 1
            if d == 0:
                return k
        k += 1
    return len(src) - 1


def _tree_loops(read):
    """every `while`/`loop` of the parser whose body re-assigns a variable to a node that boxes the
    variable's previous value (`left = Node { left: Box::new(left), .. }`): a chain of n links becomes a
    tree of depth n.  counted = the loop body calls `check_chain_length` at its top level (not inside
    a branch) before the wrapping assignment, i.e. on every path that extends the chain."""
    base = "crates/vibesql-parser/src/parser"
    repo = _os.environ.get("VERIF_REPO", "/repo")
    rows = []
    for dp, _dn, fns in sorted(_os.walk(_os.path.join(repo, base))):
        for f in sorted(fns):
            if not f.endswith(".rs"):
                continue
            rel = _os.path.relpath(_os.path.join(dp, f), repo)
            src = _strip(read(rel))
            for m in re.finditer(r"\b(?:while\b[^{;]*|loop\s*)\{", src):
                j = m.end() - 1
                body = src[j + 1:_block_end(src, j)]
                for w in re.finditer(r"\b(\w+)\s*=\s*[\w:]+\s*(?:\{|\()", body):
                    var = w.group(1)
                    d, e = 0, w.end() - 1
                    while e < len(body):
                        c = body[e]
                        if c in "{(":
                            d += 1
                        elif c in "})":
                            d -= 1
                        elif c == ";" and d == 0:
                            break
                        e += 1
                    if not re.search(r"Box::new\(\s*%s\s*\)" % re.escape(var), body[w.start():e]):
                        continue
                    pre = body[:w.start()]
                    depths = [pre[:c.start()].count("{") - pre[:c.start()].count("}")
                              for c in re.finditer(r"check_chain_length", pre)]
                    fn = re.findall(r"fn\s+(\w+)", src[:m.start()])
                    rows.append((fn[-1] if fn else "?", 1 if 0 in depths else 0))
                    break
    return rows


_extract_graph = extract


def extract(read):  # noqa: F811  (wraps the extractors above)
    text = _extract_graph(read)
    rows = _tree_loops(read)
    psrc = read("crates/vibesql-parser/src/parser/mod.rs")
    m = re.search(r"pub const MAX_CHAIN_LENGTH\s*:\s*usize\s*=\s*([0-9_]+)\s*;", psrc)
    if not rows or not m:
        return text + "\n-- parserTreeLoops / parserMaxChainLength: NOT FOUND in source (dependent theorems will not build)\n"
    text += ("\n/-- parser/mod.rs `MAX_CHAIN_LENGTH` -/\ndef parserMaxChainLength : Nat := %d\n" % int(m.group(1).replace("_", "")))
    text += ("\n/-- parser/**/*.rs: the loops that wrap their previous result into a new boxed node (left-deep tree builders),\n"
             "    by enclosing function; 1 = `check_chain_length` is called at the top level of the loop body before the\n"
             "    wrapping assignment (every link is counted), 0 = not. -/\n"
             "def parserTreeLoops : List (String × Nat) := [%s]\n" % ", ".join('("%s", %d)' % r for r in rows))
    return text


# ---- token-consuming loops must end at Eof; data-type arms -------------------------------------------
_POS = (r"(?:matches!\(\s*(?:self|parser)\.peek\(\)\s*,\s*(?!Token::Eof)[^)]*\)"
        r"|(?:self|parser)\.peek\(\)\s*==\s*&?Token::(?!Eof)\w+"
        r"|(?:self|parser)\.(?:peek_keyword|peek_next_keyword|try_consume_keyword|try_consume|is_join_keyword)\s*\([^)]*\))")
_NOTEOF = (r"(?:!\s*matches!\(\s*(?:self|parser)\.peek\(\)\s*,[^)]*Token::Eof[^)]*\)"
           r"|(?:self|parser)\.peek\(\)\s*!=\s*&?Token::Eof)")


def _split_top(s, op):
    parts, d, cur, i = [], 0, "", 0
    while i < len(s):
        c = s[i]
        if c in "([{":
            d += 1
        elif c in ")]}":
            d -= 1
        if d == 0 and s.startswith(op, i):
            parts.append(cur)
            cur = ""
            i += len(op)
            continue
        cur += c
        i += 1
    parts.append(cur)
    return [p.strip() for p in parts]


def _eof_class(kind, cond, body):
    """1 = the loop is left when the current token is Eof, 0 = it is not, 2 = the shapes below do not apply.
    while: every `||` alternative of the condition has an `&&` conjunct that is false at Eof (a test for a
    specific other token / keyword, or an explicit not-Eof test).  loop: the body has a default exit
    (`_ => break|return`, `else { break|return`, `if !<token test> { break|return`) or an explicit
    `Token::Eof => return|break` arm."""
    if kind == "while":
        for dis in _split_top(cond, "||"):
            if not any(re.fullmatch(_POS, con) or re.fullmatch(_NOTEOF, con) for con in _split_top(dis, "&&")):
                return 0
        return 1
    if kind == "whilelet":
        return 2
    if (re.search(r"_\s*=>\s*(?:\{\s*)?(?:break|return)\b", body) or re.search(r"else\s*\{\s*(?:break|return)\b", body)
            or re.search(r"if\s+!\s*(?:" + _POS + r")\s*\{\s*(?:break|return)\b", body)
            or re.search(r"Token::Eof\s*=>\s*(?:\{\s*)?(?:break|return)\b", body)):
        return 1
    return 2


def _token_loops(read):
    base = "crates/vibesql-parser/src/parser"
    repo = _os.environ.get("VERIF_REPO", "/repo")
    rows = []
    for dp, _dn, fns in sorted(_os.walk(_os.path.join(repo, base))):
        for f in sorted(fns):
            if not f.endswith(".rs"):
                continue
            rel = _os.path.relpath(_os.path.join(dp, f), repo)
            src = _strip(read(rel))
            for m in re.finditer(r"\b(while|loop)\b", src):
                k, d = m.end(), 0
                while k < len(src):
                    c = src[k]
                    if c in "([":
                        d += 1
                    elif c in ")]":
                        d -= 1
                    elif c == "{" and d == 0:
                        break
                    k += 1
                cond = " ".join(src[m.end():k].split())
                kind = "whilelet" if (m.group(1) == "while" and cond.startswith("let")) else m.group(1)
                body = src[k + 1:_block_end(src, k)]
                consumes = bool(re.search(r"advance\(\)|consume|expect_|parse_\w+\(", body)) or "Eof" in cond
                if not consumes:
                    continue
                fn = re.findall(r"fn\s+(\w+)", src[:m.start()])
                rows.append((fn[-1] if fn else "?", kind, _eof_class(kind, cond, body)))
    return rows


_extract_loops0 = extract


def extract(read):  # noqa: F811  (wraps the extractors above)
    text = _extract_loops0(read)
    rows = _token_loops(read)
    if not rows:
        return text + "\n-- parserTokenLoops: NOT FOUND in source (dependent theorems will not build)\n"
    text += ("\n/-- parser/**/*.rs: every `while` / `loop` that consumes tokens (or tests for Eof), by enclosing function and kind;\n"
             "    1 = left when the current token is Eof (condition / default exit, see tools/consts.d/c23.py), 0 = not,\n"
             "    2 = shape not recognised. -/\n"
             "def parserTokenLoops : List (String × String × Nat) := [%s]\n" % ", ".join('("%s", "%s", %d)' % r for r in rows))
    tsrc = _strip(read("crates/vibesql-parser/src/parser/create/types.rs"))
    i = tsrc.find("fn parse_data_type")
    j = tsrc.find("fn ", i + 10) if i >= 0 else -1
    arms = []
    if i >= 0:
        body = read("crates/vibesql-parser/src/parser/create/types.rs")
        bi = body.find("fn parse_data_type")
        bj = body.find("\n    fn ", bi + 10)
        bj2 = body.find("\n    pub(crate) fn ", bi + 10)
        ends = [x for x in (bj, bj2) if x > 0]
        seg = body[bi:min(ends)] if ends else body[bi:]
        for m in re.finditer(r'^\s{12}((?:"[A-Z_]+"\s*\|\s*)*"[A-Z_]+")\s*=>', seg, re.M):
            arms += re.findall(r'"([A-Z_]+)"', m.group(1))
    if not arms:
        return text + "\n-- parserDataTypeArms: NOT FOUND in source (dependent theorems will not build)\n"
    text += ("\n/-- parser/create/types.rs `parse_data_type`: the type keywords of the top-level match arms -/\n"
             "def parserDataTypeArms : List String := [%s]\n" % ", ".join('"%s"' % a for a in dict.fromkeys(arms)))
    return text
