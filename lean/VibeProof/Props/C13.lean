import VibeProof.Props.C15
/-
C13 — ROLLBACK restores exactly the state at BEGIN; COMMIT keeps the last state.

Model: `Model/TableSM.lean` — BEGIN snapshots rows, hash indexes and (fix 650ff828) the registry
of user-defined indexes; ROLLBACK restores all three and (fix a2743cd5) rebuilds the registry's
index data from the restored rows.

Observation of a state: rows, hash indexes, the list of user-defined indexes (name, columns,
uniqueness) and the answer of every index-driven equality lookup.

* `C13_rollback_restores`: for every committed pre-state and EVERY in-transaction history (DML,
  TRUNCATE, CREATE / DROP INDEX, savepoint operations) the observation after ROLLBACK equals
  the one before BEGIN.  (Before fix 650ff828 this held only without index DDL: an index created
  inside the transaction survived ROLLBACK.)
* `C13_commit_keeps_last_state`: COMMIT changes nothing but the transaction flag.
-/
namespace VibeProof.C13
open VibeProof VibeProof.Idx VibeProof.TSM VibeProof.C15

def shape (u : UIdx) : String × List Nat × Bool := (u.name, u.cols, u.unique)

/-- statements that may occur between BEGIN and ROLLBACK/COMMIT -/
def InTxnOp : Op → Prop
  | .begin => False
  | .commit => False
  | .rollback => False
  | _ => True

/-- same observation: table contents, constraint indexes, schema objects (index list) and the
result of every index-driven lookup -/
def SameObs (a b : TState) : Prop :=
  a.rows = b.rows ∧ a.hidx = b.hidx ∧ a.uidx.map shape = b.uidx.map shape ∧
  ∀ (i : Nat) (ua ub : UIdx) (k : Key), a.uidx[i]? = some ua → b.uidx[i]? = some ub →
    (uLookup ua.data a.rows k).Perm (uLookup ub.data b.rows k)

def afterRollback (s : TState) (ops : List Op) : TState :=
  (step (run (step s .begin).1 ops) .rollback).1

def afterCommit (s : TState) (ops : List Op) : TState :=
  (step (run (step s .begin).1 ops) .commit).1

theorem insertMany_txn (rs : List Row) : ∀ (s : TState) (t : Txn), s.txn = some t →
    ∃ t', (insertMany s rs).txn = some t' ∧ t'.snapRows = t.snapRows ∧ t'.snapH = t.snapH ∧
      t'.snapU = t.snapU := by
  induction rs with
  | nil => intro s t ht; exact ⟨t, ht, rfl, rfl, rfl⟩
  | cons r rs ih =>
    intro s t ht
    have h1 : (insert1 s r).txn = some { t with log := t.log ++ [.ins r] } := by
      simp [insert1, logIns, logAdd, ht]
    obtain ⟨t', h2, h3, h4, h5⟩ := ih _ _ h1
    exact ⟨t', h2, h3, h4, h5⟩

theorem logAdd_snap (o : Option Txn) (t : Txn) (cs : List Change) (h : o = some t) :
    ∃ t', logAdd o cs = some t' ∧ t'.snapRows = t.snapRows ∧ t'.snapH = t.snapH ∧
      t'.snapU = t.snapU := by
  subst h
  exact ⟨{ t with log := t.log ++ cs }, rfl, rfl, rfl, rfl⟩

/-- no statement inside a transaction touches the snapshot taken at BEGIN -/
theorem step_keeps_snapshot (s : TState) (op : Op) (t : Txn) (hop : InTxnOp op)
    (ht : s.txn = some t) :
    ∃ t', (step s op).1.txn = some t' ∧ t'.snapRows = t.snapRows ∧ t'.snapH = t.snapH ∧
      t'.snapU = t.snapU := by
  cases op with
  | insert rs => exact insertMany_txn rs s t ht
  | update ups =>
    simp only [step]
    split
    · exact ⟨t, ht, rfl, rfl, rfl⟩
    · exact logAdd_snap _ t _ ht
  | upsert i new =>
    simp only [step]
    split
    · exact ⟨t, ht, rfl, rfl, rfl⟩
    · exact logAdd_snap _ t _ ht
  | delete ps => exact logAdd_snap _ t _ ht
  | truncate => exact logAdd_snap _ t _ ht
  | replace r =>
    simp only [step, insert1, logIns, logAdd, ht, Option.map_some]
    exact ⟨_, rfl, rfl, rfl, rfl⟩
  | createIndex name cols unique =>
    simp only [step]
    split
    · exact ⟨t, ht, rfl, rfl, rfl⟩
    · exact ⟨t, ht, rfl, rfl, rfl⟩
  | dropIndex name =>
    simp only [step]
    split
    · exact ⟨t, ht, rfl, rfl, rfl⟩
    · exact ⟨t, ht, rfl, rfl, rfl⟩
  | begin => exact absurd hop (by simp [InTxnOp])
  | commit => exact absurd hop (by simp [InTxnOp])
  | rollback => exact absurd hop (by simp [InTxnOp])
  | savepoint n =>
    simp only [step, ht]
    exact ⟨_, rfl, rfl, rfl, rfl⟩
  | rollbackTo n =>
    simp only [step, ht]
    split
    · exact ⟨t, ht, rfl, rfl, rfl⟩
    · split
      · exact ⟨t, ht, rfl, rfl, rfl⟩
      · exact ⟨_, rfl, rfl, rfl, rfl⟩
  | release n =>
    simp only [step, ht]
    split
    · exact ⟨t, ht, rfl, rfl, rfl⟩
    · exact ⟨_, rfl, rfl, rfl, rfl⟩

theorem insertMany_shape (rs : List Row) : ∀ (s : TState),
    (insertMany s rs).uidx.map shape = s.uidx.map shape := by
  induction rs with
  | nil => intro s; rfl
  | cons r rs ih =>
    intro s
    rw [insertMany, ih]
    simp [insert1, List.map_map, Function.comp_def, shape]

theorem updUser_shape (ups : List (Nat × Row × List Nat)) : ∀ (us : List UIdx) (rows0 : List Row),
    (updUser us rows0 ups).map shape = us.map shape := by
  induction ups with
  | nil => intro us rows0; rfl
  | cons e rest ih =>
    obtain ⟨i, new, ch⟩ := e
    intro us rows0
    simp only [updUser]
    split
    · exact ih _ _
    · rw [ih]; simp [List.map_map, Function.comp_def, shape]

theorem uRebuildAll_shape (us : List UIdx) (rows : List Row) :
    (uRebuildAll us rows).map shape = us.map shape := by
  simp [uRebuildAll, List.map_map, Function.comp_def, shape]

theorem run_keeps_snapshot (ops : List Op) : ∀ (s : TState) (t : Txn),
    (∀ op ∈ ops, InTxnOp op) → s.txn = some t →
    ∃ t', (run s ops).txn = some t' ∧ t'.snapRows = t.snapRows ∧ t'.snapH = t.snapH ∧
      t'.snapU = t.snapU := by
  induction ops with
  | nil => intro s t _ ht; exact ⟨t, ht, rfl, rfl, rfl⟩
  | cons op ops ih =>
    intro s t hops ht
    obtain ⟨t1, h1, h2, h3, h3u⟩ := step_keeps_snapshot s op t (hops op (by simp)) ht
    obtain ⟨t', h4, h5, h6, h6u⟩ := ih _ t1 (fun o ho => hops o (by simp [ho])) h1
    exact ⟨t', h4, h5.trans h2, h6.trans h3, h6u.trans h3u⟩

/-- ROLLBACK restores the observation at BEGIN for every committed pre-state and every
in-transaction history of DML (INSERT, UPDATE, DELETE, TRUNCATE, REPLACE, upsert), index DDL
(CREATE / DROP INDEX) and savepoint operations — index-driven query answers included -/
theorem C13_rollback_restores (s : TState) (ops : List Op) (hs : s.txn = none)
    (hinv : IndexInv s) (hops : ∀ op ∈ ops, InTxnOp op) :
    SameObs (afterRollback s ops) s ∧ (afterRollback s ops).txn = none := by
  have hb : (step s .begin).1 = { s with txn := some { snapRows := s.rows, snapH := s.hidx, snapU := s.uidx, saves := [], log := [] } } := by
    simp [step, hs]
  obtain ⟨t', ht', hr, hh, hu⟩ := run_keeps_snapshot ops (step s .begin).1 _ hops (by rw [hb])
  have hroll : afterRollback s ops = (step (run (step s .begin).1 ops) .rollback).1 := rfl
  generalize hs2 : run (step s .begin).1 ops = s2 at ht' hroll
  have e1 : (step s2 .rollback).1.rows = t'.snapRows := by simp [step, ht']
  have e2 : (step s2 .rollback).1.hidx = t'.snapH := by simp [step, ht']
  have e3 : (step s2 .rollback).1.uidx = uRebuildAll t'.snapU t'.snapRows := by simp [step, ht']
  have e4 : (step s2 .rollback).1.txn = none := by simp [step, ht']
  rw [hroll]
  simp only at hr hh hu
  refine ⟨⟨e1.trans hr, e2.trans hh, ?_, ?_⟩, e4⟩
  · rw [e3, uRebuildAll_shape, hu]
  · intro i ua ub k hua hub
    rw [e3] at hua
    rw [e1]
    have hsh : shape ua = shape ub := by
      have h1 : ((uRebuildAll t'.snapU t'.snapRows).map shape)[i]? = some (shape ua) := by
        rw [List.getElem?_map, hua]; rfl
      have h2 : (s.uidx.map shape)[i]? = some (shape ub) := by
        rw [List.getElem?_map, hub]; rfl
      rw [uRebuildAll_shape, hu, h2] at h1
      exact (Option.some.inj h1).symm
    have hcols : ua.cols = ub.cols := by
      have := congrArg (fun x => x.2.1) hsh; exact this
    have hua_ok : UOk ua.data (proj ua.cols) t'.snapRows :=
      UInv_rebuild _ _ ua (List.mem_of_getElem? hua)
    have hub_ok : UOk ub.data (proj ub.cols) s.rows := hinv.2.1 ub (List.mem_of_getElem? hub)
    rw [hr]
    rw [hr, hcols] at hua_ok
    exact uLookup_perm _ _ _ _ hua_ok hub_ok k

/-- the former counterexample (CREATE INDEX inside the transaction) is now restored as well -/
theorem C13_index_ddl_is_rolled_back :
    let s := run (init [([0], false)]) [.insert [[.int 1]], .createIndex "Q" [0] false]
    (afterRollback s [.createIndex "I" [0] false, .dropIndex "Q", .delete [0]]).uidx = s.uidx ∧
    (afterRollback s [.createIndex "I" [0] false, .dropIndex "Q", .delete [0]]).rows = s.rows := by
  decide

/-- COMMIT keeps the state reached by the last statement -/
theorem C13_commit_keeps_last_state (s : TState) (ops : List Op) (hs : s.txn = none)
    (hops : ∀ op ∈ ops, InTxnOp op) :
    let last := run (step s .begin).1 ops
    (afterCommit s ops).rows = last.rows ∧ (afterCommit s ops).hidx = last.hidx ∧
    (afterCommit s ops).uidx = last.uidx ∧ (afterCommit s ops).txn = none := by
  have hb : (step s .begin).1.txn = some { snapRows := s.rows, snapH := s.hidx, snapU := s.uidx, saves := [], log := [] } := by
    simp [step, hs]
  obtain ⟨t', ht', _, _, _⟩ := run_keeps_snapshot ops (step s .begin).1 _ hops hb
  have hc : afterCommit s ops = (step (run (step s .begin).1 ops) .commit).1 := rfl
  intro last
  have hl : last = run (step s .begin).1 ops := rfl
  rw [hc, hl]
  generalize run (step s .begin).1 ops = s2 at ht'
  simp [step, ht']

/-- non-vacuity: a committed state with a PRIMARY KEY and a user-defined index, and an
in-transaction history that changes every structure (index DDL included); the hypotheses hold
and the rollback really has something to restore -/
example :
    let s := run (init [([0], false)]) [.createIndex "I" [1] false, .insert [[.int 1, .int 10], [.int 2, .int 20]]]
    let ops : List Op := [.delete [0], .insert [[.int 3, .int 10]], .savepoint "A", .dropIndex "I", .truncate]
    s.txn = none ∧ (run (step s .begin).1 ops).rows = [] ∧ (run (step s .begin).1 ops).uidx = [] ∧
      (afterRollback s ops).rows = s.rows ∧ (∀ op ∈ ops, InTxnOp op) := by
  refine ⟨by decide, by decide, by decide, by decide, ?_⟩
  simp [InTxnOp]

end VibeProof.C13
