import VibeProof.Model.BinProto
open VibeProof VibeProof.Proto

/-- requests: `(encval V)`, `(decval HEX)`, `(load HEX)`, `(layout HEX)` — see Model/BinProto.lean -/
def main : IO Unit := runDriver VibeProof.BinProto.handle
