//! Canonicalisation of values / rows so that only what a property observes is compared.
use vibesql_types::SqlValue;

/// Numerics by value (C01: "compared by value, not by storage type"); strings hex; NULL = N.
pub fn val(v: &SqlValue) -> String {
    match v {
        SqlValue::Null => "N".into(),
        SqlValue::Integer(i) | SqlValue::Bigint(i) => format!("I{}", i),
        SqlValue::Smallint(i) => format!("I{}", i),
        SqlValue::Unsigned(u) => format!("I{}", u),
        SqlValue::Numeric(f) | SqlValue::Double(f) => fl(*f),
        SqlValue::Float(f) | SqlValue::Real(f) => fl(*f as f64),
        SqlValue::Character(s) | SqlValue::Varchar(s) => format!("S{}", crate::sx::hex_str(s)),
        SqlValue::Boolean(b) => format!("B{}", if *b { 1 } else { 0 }),
        other => format!("X{}", crate::sx::hex_str(&format!("{:?}", other))),
    }
}

fn fl(f: f64) -> String {
    if f.is_finite() && f.fract() == 0.0 && f.abs() < 9.0e15 {
        format!("I{}", f as i64)
    } else if f.is_nan() {
        "Fnan".into()
    } else {
        // 12 significant digits: float accumulation order is not the property
        format!("F{:.12e}", f)
    }
}

pub fn row(r: &[SqlValue]) -> String {
    let mut s = String::from("(");
    for (i, v) in r.iter().enumerate() {
        if i > 0 {
            s.push(' ');
        }
        s.push_str(&val(v));
    }
    s.push(')');
    s
}

/// sequence form "(row row ...)"
pub fn rows_seq(rows: &[Vec<SqlValue>]) -> String {
    let v: Vec<String> = rows.iter().map(|r| row(r)).collect();
    format!("({})", v.join(" "))
}

/// multiset form: rows sorted by canonical text
pub fn rows_bag(rows: &[Vec<SqlValue>]) -> String {
    let mut v: Vec<String> = rows.iter().map(|r| row(r)).collect();
    v.sort();
    format!("({})", v.join(" "))
}

pub fn bag_vec(rows: &[Vec<SqlValue>]) -> Vec<String> {
    let mut v: Vec<String> = rows.iter().map(|r| row(r)).collect();
    v.sort();
    v
}

/// SQL literal for a value (INTEGER / VARCHAR / NULL only) usable everywhere, including
/// INSERT ... SELECT for negatives.
pub fn lit(v: &SqlValue) -> String {
    match v {
        SqlValue::Null => "NULL".into(),
        SqlValue::Integer(i) | SqlValue::Bigint(i) => {
            if *i < 0 {
                format!("(0{})", i)
            } else {
                format!("{}", i)
            }
        }
        SqlValue::Varchar(s) | SqlValue::Character(s) => format!("'{}'", s.replace('\'', "''")),
        SqlValue::Boolean(b) => (if *b { "TRUE" } else { "FALSE" }).into(),
        other => format!("{}", other),
    }
}
